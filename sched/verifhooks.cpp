// Definitions of the hook function pointers declared in /repo/lib/texellib/util/verifhooks.hpp.
// Linked (libsched.a) into every harness and engine binary built by tools/vbuild.py.
#include "verifhooks.hpp"
namespace verif {
    void (*tbPhaseHook)(int phase, int n) = nullptr;
}
namespace verif {
    void (*evalHook)(const Position& pos, int whiteContempt, int score) = nullptr;
}
