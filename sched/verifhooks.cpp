// Definitions of the hook function pointers declared in /repo/lib/texellib/util/verifhooks.hpp.
// Linked (libsched.a) into every harness and engine binary built by tools/vbuild.py.
#include "verifhooks.hpp"
namespace verif {
    void (*tbPhaseHook)(int phase, int n) = nullptr;
}
namespace verif {
    void (*evalHook)(const Position& pos, int whiteContempt, int score) = nullptr;
}
namespace verif {
    void (*syncHook)(int point) = nullptr;
    void (*evtHook)(const char* name, const void* obj, long a, long b) = nullptr;
    long long (*clockHook)() = nullptr;
    void (*nodeHook)() = nullptr;
}
