// Hook implementations for the controller checks (C05, C06, C10), linked into every binary built by tools/vbuild.py
// and activated only through environment variables, read once at start-up:
//   VERIF_TRACE=<file>     record VERIF_EVT events as ND-JSON (global sequence number taken inside the caller's critical section)
//   VERIF_SCHED=<seed>     seeded priority-based schedule perturbation at VERIF_SYNC points (PCT style: random thread
//                          priorities, low-priority threads are delayed, a few priority change points)
//   VERIF_CLOCK=<nodes/ms> virtual clock driven by searched nodes (all threads); 0/unset = real clock
//   VERIF_WATCHDOG=<sec>   abort the process (exit 97) if it is still alive after that many seconds (hang detection backstop)
#include "verifhooks.hpp"
#include <atomic>
#include <chrono>
#include <cstdio>
#include <cstdlib>
#include <cstring>
#include <map>
#include <mutex>
#include <string>
#include <thread>
#include <unistd.h>

namespace {

std::mutex gMutex;               // leaf lock: protects the trace file and the id tables
FILE* gTrace = nullptr;
std::atomic<long> gSeq{0};
std::map<const void*, int> gObjIds;
std::atomic<int> gThreadCount{0};
thread_local int tId = -1;

int threadId() {
    if (tId < 0) tId = gThreadCount++;
    return tId;
}

int objId(const void* p) {      // gMutex held
    if (!p) return -1;
    auto it = gObjIds.find(p);
    if (it != gObjIds.end()) return it->second;
    int id = (int)gObjIds.size();
    gObjIds[p] = id;
    return id;
}

void evt(const char* name, const void* obj, long a, long b) {
    std::lock_guard<std::mutex> L(gMutex);
    if (!gTrace) return;
    long n = ++gSeq;
    int t = threadId();
    long long vt = verif::clockHook ? verif::clockHook() : -1;
    if (strcmp(name, "Cmd") == 0) {
        std::string txt((const char*)obj, (size_t)b);
        std::string esc;
        for (char c : txt) { if (c == '"' || c == '\\') esc += '\\'; if ((unsigned char)c >= 0x20) esc += c; }
        fprintf(gTrace, "{\"n\":%ld,\"t\":%d,\"vt\":%lld,\"e\":\"Cmd\",\"o\":-1,\"a\":%ld,\"b\":0,\"txt\":\"%s\"}\n", n, t, vt, a, esc.c_str());
    } else if (strcmp(name, "RegWorker") == 0) {
        int o = objId(obj);
        int par = objId((const void*)(size_t)b);
        fprintf(gTrace, "{\"n\":%ld,\"t\":%d,\"vt\":%lld,\"e\":\"%s\",\"o\":%d,\"a\":%ld,\"b\":%d}\n", n, t, vt, name, o, a, par);
    } else {
        fprintf(gTrace, "{\"n\":%ld,\"t\":%d,\"vt\":%lld,\"e\":\"%s\",\"o\":%d,\"a\":%ld,\"b\":%ld}\n", n, t, vt, name, objId(obj), a, b);
    }
    fflush(gTrace);
}

// ---------------------------------------------------------------- schedule perturbation
unsigned long long gSeed = 0;
std::atomic<long> gSyncCount{0};
long gChange[4];
int gPrio[64];

unsigned long long mix(unsigned long long x) {
    x += 0x9E3779B97F4A7C15ULL; x = (x ^ (x >> 30)) * 0xBF58476D1CE4E5B9ULL; x = (x ^ (x >> 27)) * 0x94D049BB133111EBULL; return x ^ (x >> 31);
}

void sync(int point) {
    int t = threadId() & 63;
    long c = ++gSyncCount;
    for (int k = 0; k < 4; k++)
        if (c == gChange[k]) gPrio[t] = 0;                    // priority change point: this thread drops to the lowest priority
    unsigned long long r = mix(gSeed ^ (unsigned long long)c * 1315423911ULL ^ ((unsigned long long)t << 48) ^ (unsigned)point);
    int prio = gPrio[t];                                       // 0 (lowest) .. 7
    unsigned roll = r & 1023;
    if (prio == 0) {
        if (roll < 300) usleep(50 + (r >> 10) % 2000);
        else if (roll < 700) sched_yield();
    } else if (prio < 4) {
        if (roll < 60) usleep(20 + (r >> 10) % 400);
        else if (roll < 250) sched_yield();
    } else {
        if (roll < 8) usleep(10 + (r >> 10) % 100);
    }
}

// ---------------------------------------------------------------- virtual clock
std::atomic<long long> gNodes{0};
long long gNodesPerMs = 0;
long long vclock() { return 1000 + gNodes.load(std::memory_order_relaxed) / gNodesPerMs; }
void node() { gNodes.fetch_add(1, std::memory_order_relaxed); }
// On-demand tablebase generation searches no nodes: every progress report of the generator (one per 65536 indices in the two
// classification passes, one per retrograde iteration) counts as 5 ms of virtual time, so that a stop / ponderhit / hard limit arriving
// while a table is being generated is judged like one arriving during the search.
void tbTick(int, int) { gNodes.fetch_add(5 * gNodesPerMs, std::memory_order_relaxed); }

struct Init {
    Init() {
        const char* tr = getenv("VERIF_TRACE");
        if (tr && *tr) {
            gTrace = fopen(tr, "w");
            if (gTrace) verif::evtHook = evt;
        }
        const char* sc = getenv("VERIF_SCHED");
        if (sc && *sc) {
            gSeed = strtoull(sc, nullptr, 10);
            for (int i = 0; i < 64; i++) gPrio[i] = (int)(mix(gSeed + 77 * i) % 8);
            for (int k = 0; k < 4; k++) gChange[k] = 1 + (long)(mix(gSeed * 31 + k) % 3000);
            verif::syncHook = sync;
        }
        const char* ck = getenv("VERIF_CLOCK");
        if (ck && atoll(ck) > 0) {
            gNodesPerMs = atoll(ck);
            verif::clockHook = vclock;
            verif::nodeHook = node;
            verif::tbPhaseHook = tbTick;
        }
        const char* wd = getenv("VERIF_WATCHDOG");
        if (wd && atoi(wd) > 0) {
            int secs = atoi(wd);
            std::thread([secs]() {
                std::this_thread::sleep_for(std::chrono::seconds(secs));
                fprintf(stderr, "VERIF_WATCHDOG: process still alive after %d s\n", secs);
                _exit(97);
            }).detach();
        }
    }
} gInit;

} // namespace
