#!/usr/bin/env python3
"""archive_seed.py <worktree> <name> <check-id> <detection result text> [note]
Copies <worktree>/out/* to /verif/seeded/<name>/ and completes meta.json with the confirmation and detection record.
Only to be called after tools/confirm_seed.sh confirmed the seed (clean demo rc=0, patched rc!=0, no stable_pass test broken)."""
import json
import os
import shutil
import sys

wt, name, cid, result = sys.argv[1:5]
note = sys.argv[5] if len(sys.argv) > 5 else ""
d = os.path.join("/verif/seeded", name)
os.makedirs(d, exist_ok=True)
for f in os.listdir(os.path.join(wt, "out")):
    src = os.path.join(wt, "out", f)
    if os.path.isfile(src) and os.path.getsize(src) < 2_000_000:
        shutil.copy(src, d)
m = json.load(open(os.path.join(d, "meta.json")))
m["origin"] = "independent sub-agent given only the property text and a scratch worktree (plus a synthetic-network object file where the engine must search)"
m["confirmed"] = {"how": "tools/confirm_seed.sh in the scratch worktree", "clean_tree_demo": "exit 0", "patched_build": "ok",
                  "patched_ctest": "184 tests seen, 47 failing, none of them in stable_pass", "patched_demo": "exit != 0"}
m["detected_by"] = {"check": f"tools/vcheck {cid} quick", "result": result}
if note:
    m["note"] = note
json.dump(m, open(os.path.join(d, "meta.json"), "w"), indent=1)
print("archived", d)
