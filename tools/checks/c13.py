"""C13 - with tablebase knowledge the engine reports exact results and keeps them (Tr_TB.tla TTbSearch).
Roots: random placements of pawnless <=4-man classes x hmc 0..99 (40% of the decisive roots searched two or three times in one engine
process at increasing clocks around their 50-move boundary, hash kept); `go infinite` until the on-demand table is built and a
depth>=3 line is out, then `stop`.  Oracle rows (value + successor values) come from the generator certified by C12 and are
re-validated (Bellman) inside the same TLC run."""
import json
import os
import random
import time
import zlib

import sessions
import uci
import vlib
from checks import c12

PID = "C13"
SPEC, CFG, DIAG = "Tr_TB.tla", "Tr_TB.cfg", "Tr_TB_diag.cfg"
SIZES = {"quick": dict(classes=7, per=30), "thorough": dict(classes=36, per=120)}
PC = " KQRBNPkqrbnp"


def row_fen(row, hmc):
    b = [0] * 64
    for sq, p in row["pcs"]:
        b[sq] = p
    s = ""
    for y in range(7, -1, -1):
        e = 0
        for x in range(8):
            p = b[y * 8 + x]
            if p == 0:
                e += 1
            else:
                if e:
                    s += str(e)
                    e = 0
                s += PC[p]
        if e:
            s += str(e)
        if y:
            s += "/"
    return f"{s} {'w' if row['wtm'] else 'b'} - - {hmc} {60 + hmc // 2}"


def search(bdir, row, hmcs, net, threads, hashmb, prelude=()):
    """One engine process; the root position is searched once per half-move clock value in hmcs, in that order, without clearing the
    hash table in between (what a GUI does along a game).  Returns a list of (event | None, status, fen)."""
    eng = uci.Engine(os.path.join(bdir, "texel-" + net))
    out = []
    try:
        eng.send(f"setoption name Hash value {hashmb}")
        if threads > 1:
            eng.send(f"setoption name Threads value {threads}")
        _, ok = eng.isready(60)
        if not ok:
            return [(None, "no-readyok", row_fen(row, hmcs[0]))]
        # earlier analysis of endings of OTHER material classes in the same process: the table left resident by it must not answer for
        # the root searched afterwards
        for pfen in prelude:
            eng.send(f"position fen {pfen}")
            eng.send("go infinite")
            eng.read_until(lambda l: l.startswith("info depth") and " pv " in l, 30)
            time.sleep(0.3)
            eng.send("stop")
            _, ok = eng.read_until(lambda l: l.startswith("bestmove"), 180)
            if not ok:
                return [(None, "no-bestmove", pfen)]
        for hmc in hmcs:
            fen = row_fen(row, hmc)
            hk = zlib.crc32(fen.encode())
            if hmc != hmcs[0] and (hk & 3) == 0:
                # a new game / Clear Hash between two searches of the same ending: the table is generated afresh.  The root is then
                # searched at its FIRST clock again (where the exact mate is owed), not beyond the 50-move edge
                eng.send("ucinewgame" if (hk & 4) else "setoption name Clear Hash")
                eng.isready(60)
                hmc = hmcs[0]
                fen = row_fen(row, hmc)
            eng.send(f"position fen {fen}")
            eng.send("go infinite")
            last = None
            t_end = time.time() + 60
            deep = False
            lines_all = []
            # every search runs until an exact line of depth >= 4 is out (as before); a series needs searches deep enough to leave
            # (and later to meet) stored mate scores: in addition depth 16, or 1.5 s after the first pv line (table generation excluded)
            series = len(hmcs) > 1
            deep4 = False
            t_first = None
            t_last = time.time()
            while time.time() < t_end and not deep:
                lines, _ = eng.read_until(lambda l: l.startswith("info depth") and " pv " in l, 0.3 if series else 2.0)
                lines_all += lines
                if lines:
                    t_last = time.time()
                for l in lines:
                    d = uci.parse_info(l, row["wtm"])
                    if d and t_first is None:
                        t_first = time.time()
                    if d and d["depth"] >= 4 and d["bound"] == "":
                        deep4 = True
                    if d and d["depth"] >= 16 and d["bound"] == "":
                        deep = True
                if deep4 and (not series or time.time() - t_first > 1.5):
                    deep = True
                if not lines and time.time() - t_last >= 2.0:
                    # search may have ended by itself (mate found): nothing more will come.  Only believed when the last exact line is a
                    # mate score or deep enough; a silent engine after shallow lines is a starved engine on a loaded machine (seen once:
                    # a depth-2 'cp' line taken as the final report), so the wait goes on until t_end
                    lastx = None
                    for x in lines_all:
                        dx = uci.parse_info(x, row["wtm"])
                        if dx and dx["bound"] == "":
                            lastx = dx
                    if lastx and (lastx["kind"] == "mate" or lastx["depth"] >= 4):
                        break
            # An exact line in the middle of an iteration is not the engine's report yet (with several threads the root moves of one
            # iteration come out in varying order: 'mate 9' for the first move, 'mate 8' for a later one half a millisecond after).
            # The search is therefore stopped only when the engine has been silent for 0.7 s (3 s at most); with the table in memory
            # it usually ends by itself a few plies after the mate is found.
            t_settle = time.time() + 3.0
            while time.time() < t_settle:
                more, _ = eng.read_until(lambda l: l.startswith("info depth") and " pv " in l, 0.7)
                if not more:
                    break
                lines_all += more
            eng.send("stop")
            lines, ok = eng.read_until(lambda l: l.startswith("bestmove"), 180)
            lines_all += lines
            if not ok:
                out.append((None, "no-bestmove", fen))
                return out
            best = lines[-1].split()[1]
            for l in lines_all:
                d = uci.parse_info(l, row["wtm"])
                if d and d["bound"] == "":
                    last = d
            if last is None:
                out.append((None, "no-exact-line", fen))
                continue
            if last["kind"] != "mate" and last["depth"] < 4:
                out.append((None, "skipped-shallow", fen))       # the engine never got to a depth at which the table decides the score
                continue
            out.append(({"e": "TbSearch", "row": row, "hmc": hmc, "kind": last["kind"], "val": last["val"], "bound": last["bound"],
                         "best": uci.uci_to_mv(best, row["wtm"]), "line": last["line"] if "line" in last else " ".join(map(str, last["pv"][:3])),
                         "fen": fen, "net": net, "threads": threads, "series": len(hmcs), "nth": len(out) + 1, "depth": last["depth"], "prelude": list(prelude), "hash": hashmb}, "ok", fen))
        eng.quit()
        return out
    finally:
        eng.kill()


def run(tier, seed):
    rep = vlib.Report(PID, tier, seed, "model_checking")
    bdir, _ = vlib.build("plain", ["h_tb"] + ["texel-" + n for n in sessions.NETS])
    wd = vlib.rundir(PID)
    rnd = random.Random(seed * 13 + 5)
    sz = SIZES[tier]
    # 4-man classes with long mates are always present: only they can put the 50-move boundary at small clock values
    longm = [rnd.choice(["KBNK", "KKBN"]), rnd.choice(["KQKR", "KRKQ", "KBBK", "KKBB"])]
    classes = rnd.sample(c12.THREE, min(2, sz["classes"])) + longm + rnd.sample([c for c in c12.FOUR if c not in longm], max(1, sz["classes"] - 4))
    if tier == "thorough":
        classes = c12.THREE + c12.FOUR

    def rows_for(c):
        out = os.path.join(wd, f"rows_{c}.src")
        p = vlib.sh([os.path.join(bdir, "h_tb"), "rows", c, "vec", str(sz["per"]), str(seed), out], timeout=600)
        if p.returncode != 0:
            raise vlib.ToolFailure(f"h_tb rows {c}: {p.stderr[-300:]}")
        lines = open(out).read().strip().split("\n")
        os.remove(out)
        return c, json.loads(lines[0]), [json.loads(x) for x in lines[1:]]
    tabs = vlib.pmap(rows_for, classes, workers=8)
    jobs = []
    for c, meta, rows in tabs:
        for r in rows:
            if not r.get("succ"):
                continue        # mate / stalemate position: nothing to search (C03 covers the answer given for such roots)
            hmc = rnd.choice([0, 0, rnd.randint(1, 60), rnd.randint(60, 99), rnd.randint(85, 99)])
            v = r["v"]
            if v not in (0, 99999) and rnd.random() < 0.45:
                # the 50-move boundary of this very position: the mate completes exactly on / one before / one after ply 100
                n = (32000 - abs(v)) // 2
                edge = (101 - 2 * n) if v > 0 else (100 - 2 * n)
                hmc = min(99, max(0, edge + rnd.choice([0, 0, -1, 1])))
            hmcs = [hmc]
            nmate = (32000 - abs(v)) // 2 if v not in (0, 99999) else 0
            if v not in (0, 99999) and rnd.random() < (0.8 if nmate >= 11 else 0.3):
                # the same root again later in the game: first while the mate still fits, then when it does not fit any more
                # (same engine process, hash table kept: results cached at the earlier clock must not be replayed).  The clocks are
                # chosen inside one coarse bucket of Position::historyHash (< 40, decades up to 79) where the boundary allows it:
                # for positions with more men than the tablebases cover those clocks share a hash key, for <= 4 men they must not.
                edge = (101 - 2 * nmate) if v > 0 else (100 - 2 * nmate)
                h2 = min(99, max(1, edge + 1 + rnd.randint(0, 2)))
                bstart = 0 if h2 < 40 else (10 * (h2 // 10) if h2 < 80 else h2 - 1)
                h1 = min(edge, max(bstart, edge - rnd.randint(0, 7)))
                h1 = max(0, h1)
                hmcs = [h1, h2] if h1 < h2 else [hmc]
                if len(hmcs) == 2 and rnd.random() < 0.3:
                    hmcs.append(min(99, h2 + rnd.randint(1, 9)))
            prelude = []
            if rnd.random() < 0.4:
                for _ in range(rnd.choice([1, 1, 2])):
                    oc, _, orows = rnd.choice([t for t in tabs if t[0] != c] or tabs)
                    cand = [x for x in orows if x.get("succ")]
                    if cand:
                        prelude.append(row_fen(rnd.choice(cand), rnd.choice([0, 10])))
            jobs.append((c, meta, r, hmcs, rnd.choice(sessions.NETS), rnd.choice([1, 1, 2, 4]), rnd.choice([8, 16, 64]), tuple(prelude)))
    results = vlib.pmap(lambda j: search(bdir, j[2], j[3], j[4], j[5], j[6], j[7]), jobs, workers=10)
    files = {}
    n_ok = 0
    nsearch = 0
    nshallow = 0
    cats = {"won": 0, "lost": 0, "draw": 0, "beyond50": 0}
    allfens = set()
    for (c, meta, r, hmcs, net, thr, hm, prel), res in zip(jobs, results):
        for ev, status, fen in res:
            nsearch += 1
            allfens.add(fen)
            if status == "skipped-shallow":
                nshallow += 1
                continue
            if status != "ok":
                rep.violation(f"session:{status}:{fen}", f"engine session ended with {status} on {fen} (net {net}, threads {thr}, hash {hm})")
                continue
            f = files.setdefault(c, [json.dumps(meta)])
            f.append(json.dumps(ev))
            n_ok += 1
            v = r["v"]
            cats["won" if v > 0 else "lost" if v < 0 else "draw"] += 1
            if n_ok <= 4:
                rep.sample({"fen": fen, "reported": f"{ev['kind']} {ev['val']}", "oracle_value": v, "net": net, "threads": thr})
    paths = []
    for c, lines in files.items():
        p = os.path.join(wd, f"tbs_{c}.ndjson")
        open(p, "w").write("\n".join(lines) + "\n")
        paths.append(p)
    vlib.linear_check(rep, SPEC, CFG, DIAG, paths, wd)
    rep.cov.update({"roots": len(jobs), "searches": nsearch, "series_of_searches_in_one_process": sum(1 for j in jobs if len(j[3]) > 1),
                    "roots_searched_after_an_ending_of_another_class": sum(1 for j in jobs if j[7]), "classes": classes, "root_values": cats, "searches_skipped_as_too_shallow": nshallow})
    rep.cov["evaluations"] = nsearch
    rep.cov["distinct_nontrivial"] = len(allfens)
    rep.cov["rule"] = "random legal placements of the listed classes x hmc 0..99 x nets x Threads 1..4 x Hash 8..64; distinct FENs counted; all non-trivial (table built + searched)"
    rep.assumptions += ["oracle rows come from TBGenerator<VectorStorage>, whose exactness is C12's claim; each used row is re-checked for Bellman consistency",
                        "beyond the 50-move limit only 'an announced mate must fit and not be shorter than DTM' is demanded (captures may legitimately reset the counter)"]
    return rep.finish()


def replay(path):
    return vlib.replay_linear(PID, SPEC, DIAG, path)
