"""C02 - position state survives any make/unmake history intact.
Stack machine over Chess.tla states (spec/Tr_Position.tla) validated by TLC against traces of
the real Position; the undefined-behaviour clause is observed by running the same spec-validated
histories in the ASan+UBSan build."""
import json
import os
import re

import vlib

PID = "C02"
SIZES = {"quick": dict(walks=480, files=16, san_walks=300), "thorough": dict(walks=24000, files=64, san_walks=6000)}
SPEC, CFG, DIAG = "Tr_Position.tla", "Tr_Position.cfg", "Tr_Position_diag.cfg"


def known_prints(r):
    return [p for p in r.prints if p.startswith('<< "KNOWN"') or p.startswith('<<"KNOWN"')]


def run(tier, seed):
    rep = vlib.Report(PID, tier, seed, "model_checking")
    bdir, _ = vlib.build("plain", ["h_position"])
    wd = vlib.rundir(PID)
    sz = SIZES[tier]
    p = vlib.sh([os.path.join(bdir, "h_position"), str(seed), str(sz["walks"]), os.path.join(wd, "tp"), str(sz["files"])], timeout=3000)
    if p.returncode != 0:
        rep.violation("harness-crash", f"h_position exited {p.returncode}: {p.stderr[-800:]}")
        return rep.finish()
    summ = json.loads(p.stdout)
    files = [os.path.join(wd, f"tp.{k}.ndjson") for k in range(sz["files"])]
    res = vlib.validate_linear(SPEC, CFG, files, wd, timeout=7000)
    pseudo = 0
    for d in res:
        rep.add("states", d["states"])
        rep.add("transitions", max(d["generated"] - 1, 0))
        kp = known_prints(d["res"])
        for k in kp:
            pseudo += 1
            if "pseudo-ep" in k:
                rep.violation("pseudo-ep", "FEN round trip / FIDE-equal hash differ only by texel's pseudo en-passant square: " + k[:300])
            else:
                rep.violation("known:" + k[:80], k[:300])
        if d["ok"]:
            rep.add("traces_validated_against_impl")
            continue
        ln = d["rejected_at"]
        # context: from the last Reset before the rejected line
        lines = open(d["file"]).read().split("\n")
        start = ln
        while start > 1 and not lines[start - 1].startswith('{"e":"Reset"'):
            start -= 1
        mism, snippet, _ = vlib.diagnose_line(SPEC, DIAG, d["file"], ln, wd, context_from=start)
        # the snippet lacks the Meta line: prepend it
        body = open(snippet).read()
        with open(snippet, "w") as f:
            f.write(lines[0] + "\n" + body)
        mism, _, _ = vlib.diagnose_line(SPEC, DIAG, snippet, len(body.strip().split("\n")) + 1, wd, context_from=1)
        names = sorted(set(re.findall(r'"MISMATCH", (?:<<)?\s*"?([\w:=, "]+?)"?\s*(?:>>)?, \d+', " ".join(mism))))
        rep.violation("mismatch:" + ";".join(names)[:120], f"Tr_Position rejects line {ln} of {d['file']}: {[m[:160] for m in mism[:3]]}",
                      files=[snippet], text="\n".join(m[:2000] for m in mism[:20]))
    rep.cov["pseudo_ep_hits"] = pseudo
    # undefined-behaviour clause: same generator, sanitizer build
    sdir, _ = vlib.build("san", ["h_position"])
    env = dict(os.environ, UBSAN_OPTIONS="halt_on_error=1:print_stacktrace=1", ASAN_OPTIONS="detect_leaks=0")
    ps = vlib.sh([os.path.join(sdir, "h_position"), str(seed + 1000), str(sz["san_walks"]), os.path.join(wd, "san"), "1"],
                 timeout=3000, env=env)
    for f in os.listdir(wd):
        if f.startswith("san."):
            os.remove(os.path.join(wd, f))
    rep.cov["sanitizer_walks"] = sz["san_walks"]
    if ps.returncode != 0 or "runtime error" in ps.stderr:
        m = re.search(r"([\w/.]+:\d+:\d+): runtime error: ([^\n]+)", ps.stderr)
        site = m.group(1).split("/")[-1].rsplit(":", 1)[0] if m else "crash"
        what = m.group(2) if m else ps.stderr[-300:]
        rep.violation(f"ub:{site}", f"sanitizer build of the history driver failed (exit {ps.returncode}): {site}: {what}",
                      text=ps.stderr[-4000:])
    for k in ("walks", "steps", "unmakes", "nulls", "fenser", "same_pairs", "maxQueensOneSide"):
        rep.cov[k] = summ[k]
    rep.cov["evaluations"] = summ["states"]
    rep.cov["distinct_nontrivial"] = summ["distinct"]
    rep.cov["rule"] = ("random walks (<=300 steps) over make/unmake/null-move edit/copy/FEN+serialize round trips from seeded, synthetic "
                       "and heavy-promotion start positions; every step logs all Position fields and derived attributes; "
                       "distinct = distinct positions reached by makeMove (Zobrist key); every one is non-trivial (full state compared)")
    rep.cov["samples"] = summ["samples"]
    rep.assumptions += ["TLC evaluates spec/Chess.tla + Tr_Position.tla faithfully",
                        "hash 'recomputed from scratch' is the implementation's computeZobristHash() on a copy; independence comes from the "
                        "functional-consistency pairs (equal ImplKey => equal hash) judged by TLC",
                        "undefined-behaviour clause: observed by clang ASan+UBSan on spec-shaped histories, not decided by TLA+"]
    return rep.finish()


def replay(path):
    for s in [f for f in os.listdir(path) if f.endswith(".ndjson")]:
        r = vlib.tlc(SPEC, DIAG, os.path.join(vlib.RUN, PID, "replay"), env={"TRACE": os.path.join(path, s)})
        print("\n".join(r.prints))
    return 0
