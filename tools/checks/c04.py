"""C04 - announced mates are real (spec/Mate.tla, Tr_Mate.tla).
Every 'mate N' the full-strength engine prints (exact or lower bound), the best move delivered with it, final 'mate -N'
scores and the mate-in-one clause are judged by TLC: against certified DTM rows for pawnless <=4-man roots, and against
proof / refutation trees produced by an untrusted brute-force solver (harness/h_mate.cpp) otherwise."""
import json
import os
import random
import subprocess

import sessions
import uci
import vlib
from checks import c12, c13

PID = "C04"
# won endings from which the engine plays both sides in one process
GAME_STARTS = ["8/8/8/4k3/8/8/8/KRR5 w - - 0 1", "8/8/8/4k3/8/8/8/KQ6 w - - 0 1", "8/8/4k3/8/8/8/8/KR6 w - - 0 1", "8/8/8/4k3/8/8/8/KQR5 w - - 0 1",
               "4k3/8/8/8/8/8/8/KBB5 w - - 0 1", "8/8/8/4k3/8/8/PPP5/KR6 w - - 0 1", "6k1/5ppp/8/8/8/8/5PPP/3RR1K1 w - - 0 1", "8/8/8/4K3/8/8/8/krr5 b - - 0 1"]
SPEC, CFG, DIAG = "Tr_Mate.tla", "Tr_Mate.cfg", "Tr_Mate_diag.cfg"
SIZES = {"quick": dict(harvest=96, maxn=2, tb_classes=5, tb_per=10, depths=[1, 2, 3, 4, 5, 6], certmax=3, tactical=1600, games=12, game_plies=24),
         "thorough": dict(harvest=1500, maxn=3, tb_classes=36, tb_per=60, depths=list(range(1, 13)), certmax=4, tactical=40000, games=240, game_plies=40)}
MATE1_FAMILIES = [
    "6k1/5ppp/8/8/8/8/8/R3K3 w Q - 0 1", "k7/2P5/1K6/8/8/8/8/8 w - - 0 1", "7k/5P1p/7K/8/8/8/8/8 w - - 0 1",
    "r3k2r/8/8/8/8/8/8/4K2R b kq - 0 1", "5rk1/5ppp/8/8/8/8/8/4RK2 w - - 0 1", "4k3/8/8/8/8/8/3q4/R3K2r w Q - 0 1",
    "k7/p1p5/8/1P6/8/8/8/R3K3 w - - 0 1", "6rk/6pp/8/6N1/8/8/8/6K1 w - - 0 1", "3rk3/3p4/8/8/8/B7/8/3RK3 w - - 0 1",
    "7k/6pp/8/8/8/8/1B6/K5R1 w - - 0 1", "8/8/8/8/5p1k/8/6PP/5K1R w - - 0 1", "2kr4/ppp5/8/8/8/8/8/R3K2R w KQ - 0 1",
"1k6/ppp5/8/8/8/8/8/3R2K1 w - - 0 1", "rnbqkbnr/pppp1ppp/8/4p3/6P1/5P2/PPPPP2P/RNBQKBNR b KQkq - 0 2",
    "r1bqkb1r/pppp1ppp/2n2n2/4p2Q/2B1P3/8/PPPP1PPP/RNB1K1NR w KQkq - 4 4", "5k2/4pPp1/4P1P1/8/8/8/8/4K2R w K - 0 1",
    "7k/8/5K2/8/8/8/8/6R1 w - - 0 1", "8/8/8/8/8/k1K5/8/1Q6 w - - 0 1", "k7/8/K7/8/8/8/8/7R w - - 0 1",
]


def engine_run(bdir, fen, depth, net, opts):
    eng = uci.Engine(os.path.join(bdir, "texel-" + net))
    try:
        for k, v in opts.items():
            eng.send(f"setoption name {k} value {v}")
        _, ok = eng.isready(60)
        if not ok:
            return None
        eng.send(f"position fen {fen}")
        eng.send(f"go depth {depth}")
        # a depth limit can take minutes on a wild position or a loaded machine: after a minute the driver stops the search like a GUI
        # user would; what the engine announced up to then is judged all the same
        lines, ok = eng.read_until(lambda l: l.startswith("bestmove"), 60)
        if not ok:
            eng.send("stop")
            more, ok = eng.read_until(lambda l: l.startswith("bestmove"), 180)
            lines += more
        eng.quit()
        return lines if ok else None
    finally:
        eng.kill()


def run(tier, seed):
    rep = vlib.Report(PID, tier, seed, "model_checking")
    bdir, _ = vlib.build("plain", ["h_apply", "h_mate", "h_tb", "h_fens"] + ["texel-" + n for n in sessions.NETS])
    wd = vlib.rundir(PID)
    sz = SIZES[tier]
    rnd = random.Random(seed * 17 + 4)
    # ---- roots
    nproc = 12
    hv = vlib.pmap(lambda k: vlib.sh([os.path.join(bdir, "h_mate"), "harvest", str(seed * 100 + k), str(max(1, sz["harvest"] // nproc)), str(sz["maxn"])],
                                     timeout=2500).stdout, range(nproc), workers=nproc)
    roots = []   # dict(fen, n or None, row or None, m1 bool)
    for out in hv:
        for line in out.strip().split("\n"):
            if line:
                d = json.loads(line)
                roots.append({"fen": d["fen"], "known_n": d["n"], "row": None})
    for f in MATE1_FAMILIES:
        roots.append({"fen": f, "known_n": 1, "row": None})
    fam = vlib.pmap(lambda k: vlib.sh([os.path.join(bdir, "h_mate"), "harvest1", str(seed * 10 + k), "10" if tier == "quick" else "60"], timeout=2500).stdout,
                    range(4), workers=4)
    families = {}
    for out in fam:
        for line in out.strip().split("\n"):
            if line:
                d = json.loads(line)
                roots.append({"fen": d["fen"], "known_n": 1, "row": None})
                families[d["family"]] = families.get(d["family"], 0) + 1
    # a mate delivered by the 100th reversible half-move is still a mate: a third of the mate-in-one roots get a clock of 99 (or 98)
    for r in roots:
        if r["known_n"] == 1 and rnd.random() < 0.35:
            f = r["fen"].split()
            if len(f) >= 6 and f[3] == "-":
                f[4], f[5] = str(rnd.choice([99, 99, 98])), "60"
                r["fen"] = " ".join(f)
    classes = rnd.sample(c12.THREE + c12.FOUR, sz["tb_classes"]) if tier == "quick" else c12.THREE + c12.FOUR
    for c in classes:
        out = os.path.join(wd, f"rows_{c}.src")
        p = vlib.sh([os.path.join(bdir, "h_tb"), "rows", c, "vec", str(sz["tb_per"] * 6), str(seed), out], timeout=900)
        rows = [json.loads(x) for x in open(out).read().strip().split("\n")[1:]]
        os.remove(out)
        decisive = [r for r in rows if r["v"] != 0 and r["v"] != 99999]
        rnd.shuffle(decisive)
        decisive.sort(key=lambda r: abs(abs(r["v"]) - 32000))     # short mates first: reachable by a shallow search
        for r in decisive[:sz["tb_per"]]:
            roots.append({"fen": c13.row_fen(r, 0), "known_n": None, "row": r})
    # ordinary tactical positions (no mate known): a false mate announcement needs a particular pruning situation, so many are searched
    ntact0 = len(roots)
    pthin = vlib.sh([os.path.join(bdir, "h_fens"), str(seed + 78), str(sz["tactical"]), "thin"], timeout=900)
    thin = [json.loads(l) for l in pthin.stdout.strip().split("\n") if l]
    for r in sessions.corpus(bdir, seed + 77, sz["tactical"] // 3) + thin:
        if r["nlegal"] > 0 and r["cat"] in ("game", "synth", "sparse", "promo", "single", "thin"):
            fen = " ".join(r["fen"].split()[:4]) + " 0 1"
            roots.append({"fen": fen, "known_n": None, "row": None, "tact": True})
    # ---- engine sessions
    jobs = []
    for i, r in enumerate(roots):
        opts = {}
        if rnd.random() < 0.4:
            opts["Threads"] = rnd.choice([2, 3, 4])
        if rnd.random() < 0.3:
            opts["UseNullMove"] = "false"
        if rnd.random() < 0.5:
            opts["Hash"] = rnd.choice([1, 4, 64])
        ds = [d for d in sz["depths"]]
        if r.get("tact"):
            use = [rnd.choice([5, 6, 6, 7])]
        elif r["known_n"] == 1:
            use = ds[:4] if tier == "quick" else ds      # mate-in-one clause: every completed depth
        else:
            use = [rnd.choice(ds[2:]), ds[-1]] if tier == "quick" else rnd.sample(ds, 4)
        for d in sorted(set(use)):
            jobs.append((i, d, rnd.choice(sessions.NETS), opts))
    outs = vlib.pmap(lambda j: engine_run(bdir, roots[j[0]]["fen"], j[1], j[2], j[3]), jobs, workers=12)
    # ---- mating games in ONE engine process (hash table kept from move to move, as in a real game): the engine plays both sides from
    # won endings; every position of the game becomes a root of its own with the lines the engine printed for it.  Stored mate scores
    # that drift when entries are revisited show up as announced mates that are not real.
    def mating_game(k):
        g = random.Random(seed * 977 + k)
        start = g.choice(GAME_STARTS)
        net = g.choice(sessions.NETS)
        depth = g.choice([8, 9, 10, 11])
        opts = {"Hash": g.choice([1, 4, 16])}
        eng = uci.Engine(os.path.join(bdir, "texel-" + net))
        res = []
        try:
            for o, v in opts.items():
                eng.send(f"setoption name {o} value {v}")
            eng.isready(60)
            moves = []
            fen = start
            for ply in range(sz["game_plies"]):
                eng.send(f"position fen {start}" + (" moves " + " ".join(moves) if moves else ""))
                eng.send(f"go depth {depth}")
                lines, ok = eng.read_until(lambda l: l.startswith("bestmove"), 60)
                if not ok:
                    eng.send("stop")
                    more, ok = eng.read_until(lambda l: l.startswith("bestmove"), 180)
                    lines += more
                if not ok:
                    res.append((fen, depth, net, opts, None))
                    break
                res.append((fen, depth, net, opts, lines))
                best = lines[-1].split()[1]
                if best in ("0000", "(none)"):
                    break
                moves.append(best)
                p = subprocess.run([os.path.join(bdir, "h_apply"), start] + moves, stdout=subprocess.PIPE, text=True, timeout=30)
                out = p.stdout.strip().split("\n")
                if p.returncode != 0 or not out:
                    break        # an illegal best move is C03's business
                fen = out[-1]
            eng.quit()
        finally:
            eng.kill()
        return res
    ngame_roots = 0
    for res in vlib.pmap(mating_game, list(range(sz["games"])), workers=8):
        for fen, depth, net, opts, lines in res:
            roots.append({"fen": fen, "known_n": None, "row": None, "game": True})
            jobs.append((len(roots) - 1, depth, net, dict(opts, game="one process")))
            outs.append(lines)
            ngame_roots += 1
    # ---- collect claims
    claims = []      # per root events, certificates to request
    requests = []
    per_root = {}
    for (ri, depth, net, opts), lines in zip(jobs, outs):
        root = roots[ri]
        fen = root["fen"]
        if lines is None:
            rep.violation(f"session:no-result:{fen}:{depth}", f"no bestmove for go depth {depth} on {fen} (net {net}, {opts})")
            continue
        wtm = " w " in fen
        infos = [uci.parse_info(l, wtm) for l in lines]
        infos = [(d, l) for d, l in zip(infos, lines) if d]
        best = lines[-1].split()[1]
        evs = per_root.setdefault(ri, [])
        row = root["row"]
        seen = set()
        for d, l in infos:
            if d["kind"] == "mate" and d["val"] > 0 and d["bound"] in ("", "lowerbound") and ("win", d["val"]) not in seen:
                seen.add(("win", d["val"]))
                evs.append({"e": "MClaim", "kind": "win", "n": d["val"], "line": l, "fen": fen, "dtm": row["v"] if row else 99999, "key": (ri, "win", d["val"], "root")})
        final = next((d for d, l in reversed(infos) if d["bound"] == ""), None)
        finall = next((l for d, l in reversed(infos) if d["bound"] == ""), "")
        if final:
            if final["kind"] == "mate" and final["val"] > 0:
                bm = uci.uci_to_mv(best, wtm)
                dtm_after = 99999
                if row:
                    dtm_after = next((s[3] for s in row["succ"] if s[:3] == bm), 99999)
                evs.append({"e": "MBest", "m": bm, "n": final["val"], "line": finall + " / " + lines[-1], "fen": fen, "dtm": dtm_after,
                            "key": (ri, "lost", final["val"] - 1, best)})
            if final["kind"] == "mate" and final["val"] < 0 and ("lost", -final["val"]) not in seen:
                evs.append({"e": "MClaim", "kind": "lost", "n": -final["val"], "line": finall, "fen": fen, "dtm": row["v"] if row else 99999,
                            "key": (ri, "lost", -final["val"], "root")})
            evs.append({"e": "M1", "kind": final["kind"], "val": final["val"], "best": uci.uci_to_mv(best, wtm), "line": finall, "fen": fen,
                        "go": f"go depth {depth} net {net} {opts}"})
    # ---- certificates from the untrusted solver
    keys = {}
    for ri, evs in per_root.items():
        for e in evs:
            if e["e"] in ("MClaim", "MBest") and e["dtm"] == 99999:
                k = e["key"]
                n = k[2]
                if 1 <= n <= sz["certmax"] and k not in keys and not (e["e"] == "MBest" and n < 1):
                    keys[k] = len(keys)
    req_lines = []
    for k, idx in keys.items():
        ri, kind, n, where = k
        fen = roots[ri]["fen"]
        if where != "root":
            req_lines.append(f"{idx}|{fen}|{n}|lostafter:{where}")
        else:
            req_lines.append(f"{idx}|{fen}|{n}|{kind}")
    certs = {}
    if req_lines:
        # 'lostafter:<move>' needs the position after the best move: let the solver harness play it via a FEN we cannot compute here;
        # instead we ask for a proof tree of depth n+1 that starts with that move?  Simpler: request plain root claims only and
        # let TLC check the best move through the proof tree's first move when they coincide.
        plain = req_lines
        chunks = [plain[i::12] for i in range(12)]
        def cert(chunk):
            if not chunk:
                return ""
            p = subprocess.run([os.path.join(bdir, "h_mate"), "cert"], input="\n".join(chunk) + "\n", stdout=subprocess.PIPE, text=True, timeout=3000)
            return p.stdout
        for out in vlib.pmap(cert, chunks, workers=12):
            for line in out.strip().split("\n"):
                if line:
                    d = json.loads(line)
                    certs[int(d["tag"])] = d
    # ---- trace files
    nfiles = 16
    files = [os.path.join(wd, f"mt.{k}.ndjson") for k in range(nfiles)]
    fh = [open(f, "w") for f in files]
    for f in fh:
        f.write(json.dumps({"e": "Meta", "check": PID}) + "\n")
    stats = {"claims_win": 0, "claims_lost": 0, "best_checked": 0, "m1_events": 0, "cert_proof": 0, "cert_refutation": 0, "cert_lost": 0,
             "decided_by_dtm": 0, "undecided": 0}
    for ri, evs in per_root.items():
        o = fh[ri % nfiles]
        o.write(json.dumps({"e": "MRoot", "start": uci.fen_to_fields(roots[ri]["fen"]), "fen": roots[ri]["fen"]}) + "\n")
        for e in evs:
            k = e.pop("key", None)
            if e["e"] in ("MClaim", "MBest"):
                c = {"result": "none", "tree": []}
                if k in keys and keys[k] in certs:
                    cd = certs[keys[k]]
                    c = {"result": cd["result"], "tree": cd.get("tree", [])}
                e["cert"] = c
                if e["e"] == "MClaim":
                    stats["claims_win" if e["kind"] == "win" else "claims_lost"] += 1
                    if e["dtm"] != 99999:
                        stats["decided_by_dtm"] += 1
                    elif c["result"] in ("proof", "refutation", "lost"):
                        stats["cert_" + c["result"]] += 1
                    else:
                        stats["undecided"] += 1
                else:
                    stats["best_checked"] += 1
            else:
                stats["m1_events"] += 1
            o.write(json.dumps(e) + "\n")
    for f in fh:
        f.close()

    def keyfn(line, names):
        return "mismatch:" + ";".join(names) + ":" + line[:100]
    vlib.linear_check(rep, SPEC, CFG, DIAG, files, wd, context_marker='{"e": "MRoot"', keyfn=keyfn)
    # a rejected solver certificate is a defect of the untrusted solver, not of the engine
    if rep.violations and all("SolverCertificate" in v[0] and "AnnouncedMate" not in v[0] and "BestMove" not in v[0] and "MateInOne" not in v[0]
                               for v in rep.violations):
        raise vlib.ToolFailure("solver certificate rejected by TLC: " + rep.violations[0][1][:300])
    rep.cov.update(stats)
    rep.cov["roots_from_games_played_in_one_process"] = ngame_roots
    rep.cov["roots"] = len(roots)
    rep.cov["tactical_roots_without_known_mate"] = len(roots) - ntact0
    rep.cov["mate_in_one_families"] = families
    rep.cov["searches"] = len(jobs)
    rep.cov["evaluations"] = len(jobs)
    rep.cov["distinct_nontrivial"] = len({(roots[j[0]]["fen"], j[1]) for j in jobs})
    rep.cov["rule"] = ("roots: forced mates <= N harvested from random games/synthetic placements by the solver, hand-written mate-in-one families, "
                       "decisive pawnless <=4-man placements (certified DTM); searches at several depths x nets x Threads x null-move x Hash; "
                       "distinct (root, depth) pairs; all non-trivial (a mate exists at the root)")
    for r in roots[:3]:
        rep.sample({"fen": r["fen"], "known_mate_in": r["known_n"]})
    rep.assumptions += ["claims with N beyond the solver bound and outside tablebase range are counted as undecided, never as verdicts",
                        "the solver is untrusted: only TLC-validated proof/refutation trees count"]
    return rep.finish()


def replay(path):
    return vlib.replay_linear(PID, SPEC, DIAG, path)
