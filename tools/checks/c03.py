"""C03 - every search result is a legal, well-formed answer in any configuration.
Engine output (info pv lines, bestmove, ponder) of seeded single-search sessions over limits x options x
nets is validated by TLC against spec/Tr_SearchOut.tla (rule book Chess.tla)."""
import json
import os
import random

import sessions
import vlib

PID = "C03"
SIZES = {"quick": dict(n=360, files=16), "thorough": dict(n=9000, files=48)}
SPEC, CFG, DIAG = "Tr_SearchOut.tla", "Tr_SearchOut.cfg", "Tr_SearchOut_diag.cfg"


def run(tier, seed):
    rep = vlib.Report(PID, tier, seed, "model_checking")
    bdir, _ = vlib.build("plain", ["h_fens"] + ["texel-" + n for n in sessions.NETS])
    wd = vlib.rundir(PID)
    sz = SIZES[tier]
    rnd = random.Random(seed * 7919 + 3)
    roots = sessions.corpus(bdir, seed, sz["n"])
    jobs = [(i, roots[i], sessions.gen_session(rnd, roots[i], tier)) for i in range(len(roots))]

    def one(job):
        i, root, s = job
        try:
            return sessions.run_session(bdir, root, s, seed * 100003 + i)
        except Exception as e:  # driver problem, not an engine verdict
            return {"events": [], "status": "driver-error:" + repr(e), "log": []}
    results = vlib.pmap(one, jobs, workers=12)
    files = [os.path.join(wd, f"so.{k}.ndjson") for k in range(sz["files"])]
    outs = [open(f, "w") for f in files]
    for o in outs:
        o.write(json.dumps({"e": "Meta", "check": PID, "seed": seed}) + "\n")
    cats, kinds, distinct = {}, {}, set()
    ninfo = 0
    for (i, root, s), r in zip(jobs, results):
        if r["status"].startswith("driver-error"):
            raise vlib.ToolFailure(r["status"])
        if r["status"] != "ok":
            logtxt = "\n".join(f"{k}: {t}" for k, t in r["log"][-40:])
            rep.violation(f"session:{r['status']}:{root['fen']}:{s['go']}",
                          f"engine session ended with {r['status']} (net {s['net']}, options {s['options']}, go {s['go']}, fen {root['fen']})",
                          text=logtxt)
        for e in r["events"]:
            outs[i % len(outs)].write(json.dumps(e) + "\n")
            if e["e"] == "Info":
                ninfo += 1
        cats[root["cat"]] = cats.get(root["cat"], 0) + 1
        kinds[s["kind"]] = kinds.get(s["kind"], 0) + 1
        distinct.add((root["fen"], s["go"], json.dumps(s["options"], sort_keys=True)))
        if i < 4:
            rep.sample({"fen": root["fen"], "cat": root["cat"], "go": s["go"], "options": s["options"], "net": s["net"],
                        "bestmove": next((e["line"] for e in r["events"] if e["e"] == "Best"), None)})
    for o in outs:
        o.close()
    vlib.linear_check(rep, SPEC, CFG, DIAG, files, wd, context_marker='{"e": "Root"')
    rep.cov["sessions"] = len(jobs)
    rep.cov["pv_lines_checked"] = ninfo
    rep.cov["root_categories"] = cats
    rep.cov["limit_kinds"] = kinds
    rep.cov["evaluations"] = len(jobs)
    rep.cov["distinct_nontrivial"] = len(distinct)
    rep.cov["rule"] = ("one search per session on roots from random games / synthetic placements (mate, stalemate, single-move, hmc>=97, sparse roots "
                       "included) x seeded options (Hash, Threads, MultiPV, Strength, LimitStrength/Elo, MaxNPS, UseNullMove, AnalyseMode, Contempt) "
                       "x limit kinds x 4 synthetic nets; distinct by (root, go, options); all are non-trivial (a real search is run)")
    rep.assumptions += ["synthetic evaluation networks stand in for the missing nndata.tbin.compr",
                        "illegal output needing a 64-bit hash collision cannot be provoked dynamically (DESIGN.md C03 limit)"]
    return rep.finish()


def replay(path):
    return vlib.replay_linear(PID, SPEC, DIAG, path)
