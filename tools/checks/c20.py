"""C20 - the rank-constraint solver decides satisfiability exactly (spec/Csp.tla).
Csp.tla defines satisfiability declaratively (SatDecl) and algorithmically (SatAlg: parity split + halving + bounds fixed point);
TLC model-checks that both agree on all systems of a small bound, then validates traces of the real CspSolver under all four
value-preference orders: reported solvability = SatAlg(sys) (and = SatDecl(sys) whenever the assignment space is small), and every
returned assignment satisfies all domains and constraints."""
import json
import os

import vlib

PID = "C20"
SPEC, CFG, DIAG = "Tr_Csp.tla", "Tr_Csp.cfg", "Tr_Csp_diag.cfg"
SIZES = {"quick": dict(n=24000, files=16, mc="MC_Csp_quick.cfg"), "thorough": dict(n=800000, files=64, mc="MC_Csp.cfg")}


def run(tier, seed):
    rep = vlib.Report(PID, tier, seed, "model_checking")
    bdir, _ = vlib.build("plain", ["h_csp"])
    wd = vlib.rundir(PID)
    sz = SIZES[tier]
    r = vlib.tlc("MC_Csp.tla", sz["mc"], os.path.join(wd, "mc"), workers=8, timeout=3000, xmx="8g")
    if r.violated:
        raise vlib.ToolFailure("the two specification-level definitions of satisfiability disagree (MC_Csp): " + r.out[-1500:])
    if not r.ok:
        raise vlib.ToolFailure("MC_Csp failed: " + r.out[-1500:])
    rep.cov["spec_cross_check_systems"] = r.distinct
    rep.add("states", r.distinct)
    rep.add("transitions", r.generated)
    per = sz["n"] // sz["files"]
    jobs = [(k, os.path.join(wd, f"csp.{k}.ndjson"), None) for k in range(sz["files"])]
    # exhaustive small scope: the complete two-variable family of MC_Csp.tla around the value -1 / the lower preference window edge
    # (-2..2) and around the upper edge (4..8), solved by the real solver: all of it (thorough) or every 64th system (quick)
    nparts, stride = (1, 64) if tier == "quick" else (16, 16)
    for fam, (lo, hi) in enumerate([(-2, 2), (4, 8)]):
        for part in range(nparts):
            off = (seed + fam) % stride if tier == "quick" else part
            jobs.append((1000 + fam * 100 + part, os.path.join(wd, f"cspenum.{fam}.{part}.ndjson"), ["enum", str(lo), str(hi), str(stride), str(off)]))

    def gen(j):
        k, out, extra = j
        p = vlib.sh([os.path.join(bdir, "h_csp"), str(seed * 1000 + k), str(per) if extra is None else "0", out] + (extra or []), timeout=3000)
        return json.loads(p.stdout) if p.returncode == 0 else {"error": p.stderr[-300:] + f" rc={p.returncode}"}
    infos = vlib.pmap(gen, jobs)
    sat = unsat = 0
    for (k, out, _), info in zip(jobs, infos):
        if "error" in info:
            rep.violation(f"harness-crash:{k}", "h_csp failed (solver crashed?): " + info["error"])
            continue
        sat += info["sat"]
        unsat += info["unsat"]
    files = [o for (_, o, _), i in zip(jobs, infos) if "error" not in i]
    vlib.linear_check(rep, SPEC, CFG, DIAG, files, wd)
    rep.cov.update({"systems": sat + unsat, "satisfiable": sat, "unsatisfiable": unsat, "solver_runs": 7 * (sat + unsat)})
    rep.cov["evaluations"] = sat + unsat
    rep.cov["distinct_nontrivial"] = sat + unsat
    rep.cov["rule"] = ("seeded random systems of 1..10 variables, ranges inside [-16,47] biased to the window edges and to ranks 1..6, parity flags incl. "
                       "contradictory ones, min/max tightenings, 0..25 constraints (<=, >=, =) incl. chains/cycles mirroring the extended proof kernel; "
                       "plus the complete two-variable family of MC_Csp.tla over the value ranges -2..2 and 4..8 (every 64th system in the quick tier); each system is solved under all four PrefVal orders and once with per-variable mixed orders; systems are distinct with overwhelming probability (64-bit seeded generator)")
    try:
        first = open(files[0]).read().split("\n")[1]
        d = json.loads(first)
        rep.sample({"vars": d["vars"], "cons": d["cons"], "res": d["res"][0]})
    except Exception:
        rep.sample("n/a")
    rep.assumptions += ["SatAlg is used as oracle on large assignment spaces; it is cross-validated against the declarative definition exhaustively on small systems "
                        "(MC_Csp) and on every small system of the traces"]
    return rep.finish()


def replay(path):
    return vlib.replay_linear(PID, SPEC, DIAG, path)
