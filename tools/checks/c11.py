"""C11 - draws by repetition and the 50-move rule are recognised (spec/ChessGame.tla, Tr_Game.tla).
(a) engine: histories with shuffles -> 'position ... moves ...', 'go depth d' with MultiPV over all root moves; every exact
    per-move score of a move that creates a third occurrence / completes 50 moves must be cp 0 (or mate 1 if it mates).
(b) console game: random command sequences on Game::processString compared with the ChessGame state machine."""
import json
import os
import random

import sessions
import uci
import vlib

PID = "C11"
SIZES = {"quick": dict(roots=320, games=240, files=16), "thorough": dict(roots=12000, games=9000, files=48)}
SPEC, CFG, DIAG = "Tr_Game.tla", "Tr_Game.cfg", "Tr_Game_diag.cfg"


def engine_session(bdir, root, depth, net, threads):
    eng = uci.Engine(os.path.join(bdir, "texel-" + net))
    ev = []
    status = "ok"
    try:
        eng.send("setoption name MultiPV value 256")
        if threads > 1:
            eng.send(f"setoption name Threads value {threads}")
        _, ok = eng.isready()
        if not ok:
            return ev, "no-readyok"
        sf = uci.fen_to_fields(root["start"])
        hist = root["hist"]
        wtm_root = sf["wtm"] if len(hist) % 2 == 0 else not sf["wtm"]
        eng.send(f"position fen {root['start']}" + (" moves " + " ".join(hist) if hist else ""))
        go = f"go depth {depth}"
        ev.append({"e": "DrawRoot", "start": sf, "hist": uci.mv_list(hist, sf["wtm"]), "fen": root["fen"], "go": go})
        eng.send(go)
        lines, ok = eng.read_until(lambda l: l.startswith("bestmove"), 120)
        if not ok:
            status = "no-bestmove"
        seen = set()
        for l in lines:
            d = uci.parse_info(l, wtm_root)
            if d and d.get("pv"):
                key = (tuple(d["pv"][0]), d["depth"], d["kind"], d["val"], d["bound"])
                if key in seen:       # MultiPV re-reports every line in every batch
                    continue
                seen.add(key)
                ev.append({"e": "DrawInfo", "m": d["pv"][0], "kind": d["kind"], "val": d["val"], "bound": d["bound"],
                           "depth": d["depth"], "line": l, "go": f"position fen {root['start']} moves {' '.join(hist)} ; {go}"})
        eng.quit()
    finally:
        eng.kill()
    return ev, status


def run(tier, seed):
    rep = vlib.Report(PID, tier, seed, "model_checking")
    bdir, _ = vlib.build("plain", ["h_fens", "h_game"] + ["texel-" + n for n in sessions.NETS])
    wd = vlib.rundir(PID)
    sz = SIZES[tier]
    rnd = random.Random(seed * 31 + 11)
    p = vlib.sh([os.path.join(bdir, "h_fens"), str(seed), str(sz["roots"]), "rep"], timeout=600)
    if p.returncode != 0:
        raise vlib.ToolFailure("h_fens rep failed: " + p.stderr[-300:])
    roots = [json.loads(l) for l in p.stdout.strip().split("\n") if l]
    jobs = [(i, r, rnd.choice([1, 2, 3, 4] if tier == "quick" else [1, 2, 3, 4, 5, 6]), rnd.choice(sessions.NETS), rnd.choice([1, 1, 1, 2]))
            for i, r in enumerate(roots)]
    results = vlib.pmap(lambda j: engine_session(bdir, j[1], j[2], j[3], j[4]), jobs, workers=14)
    files = [os.path.join(wd, f"eng.{k}.ndjson") for k in range(sz["files"])]
    outs = [open(f, "w") for f in files]
    for o in outs:
        o.write(json.dumps({"e": "Meta", "check": PID, "seed": seed}) + "\n")
    ninfo = 0
    for (i, root, depth, net, thr), (ev, status) in zip(jobs, results):
        if status != "ok":
            rep.violation(f"session:{status}:{root['fen']}", f"engine session ended with {status} on {root['fen']} depth {depth} net {net}")
        for e in ev:
            outs[i % len(outs)].write(json.dumps(e) + "\n")
            ninfo += e["e"] == "DrawInfo"
        if i < 3:
            rep.sample({"start": root["start"], "hist": root["hist"], "go": f"go depth {depth}", "net": net})
    for o in outs:
        o.close()
    # console game traces
    gfiles = [os.path.join(wd, f"gm.{k}.ndjson") for k in range(sz["files"])]
    for f in gfiles:
        with open(f, "w") as fh:
            fh.write(json.dumps({"e": "Meta", "check": PID, "seed": seed}) + "\n")
    pg = vlib.sh([os.path.join(bdir, "h_game"), str(seed), str(sz["games"]), os.path.join(wd, "gm"), str(sz["files"])], timeout=3000)
    if pg.returncode != 0:
        rep.violation("harness-crash", f"h_game exited {pg.returncode}: {pg.stderr[-600:]}")
        return rep.finish()
    gs = json.loads(pg.stdout)
    vlib.linear_check(rep, SPEC, CFG, DIAG, files, wd, context_marker='{"e": "DrawRoot"')
    vlib.linear_check(rep, SPEC, CFG, DIAG, gfiles, wd, context_marker='{"e":"GameNew"')
    rep.cov.update({"engine_roots": len(jobs), "engine_move_scores_checked": ninfo, "console_games": gs["games"],
                    "console_commands": gs["commands"], "console_claims": gs["claims"], "console_claims_valid": gs["claims_valid"],
                    "console_undos": gs["undos"]})
    rep.cov["evaluations"] = len(jobs) + gs["commands"]
    rep.cov["distinct_nontrivial"] = len({(r["start"], tuple(r["hist"])) for r in roots}) + gs["games"]
    rep.cov["rule"] = ("engine: histories = random prefix / hmc 90..110 FEN / pseudo-ep double push + reversible shuffles; every root move's own exact "
                       "score via MultiPV 256; console: random command sequences (moves biased to shuffles, draw rep/50 claims with and without move, "
                       "offer/accept, undo/redo, resign, setpos); distinct histories + games counted")
    rep.cov["samples"] += gs["samples"][:2]
    rep.assumptions += ["Contempt 0 (default) so that a draw is exactly cp 0", "per-move scores are taken from exact (unbounded) MultiPV lines only"]
    return rep.finish()


def replay(path):
    return vlib.replay_linear(PID, SPEC, DIAG, path)
