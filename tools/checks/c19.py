"""C19 - book-builder graph scores stay at their defined fixed point (spec/BookGraph.tla, BookProp.tla, BookOps.tla).
(design) BookProp.tla models BookNode::updateScores step by step; TLC checks on small shapes that every operation ends at the fixed
point and refutes two known-defective variants.  (replay) every transition of BookOps.tla's state graph is replayed on the real Book.
Random operation sequences (extend under random nodes incl. transpositions, search results incl. mate/INVALID/IGNORE, pending marks,
PGN import, save/load) are applied to the real BookBuild::Book through the friend class name BookBuildTest; after (every k-th) operation
the whole node graph is dumped and TLC evaluates FixedPoint: links, shortest depth, negamax, expansion costs, path errors; a reloaded
book must equal the saved graph."""
import json
import os

import vlib

PID = "C19"
SPEC, CFG, DIAG = "Tr_BookGraph.tla", "Tr_BookGraph.cfg", "Tr_BookGraph_diag.cfg"
#            (books, ops, maxNodes, dumpEvery)
# (bookDepthCost, ownPathErrorCost, otherPathErrorCost): texelutil's defaults and tiny values (equal costs become frequent)
COSTS = [(100, 200, 50), (1, 2, 1), (100, 200, 50), (1, 1, 1), (2, 4, 1)]
SIZES = {"quick": [(40, 50, 7, 1)] * 6 + [(6, 70, 40, 1)] * 10 + [(2, 400, 300, 20)] * 4 + [(1, 1500, 1500, 150)] * 2,
         "thorough": [(400, 50, 7, 1)] * 16 + [(40, 90, 60, 1)] * 32 + [(6, 800, 500, 25)] * 16 + [(2, 4000, 3000, 200)] * 8}


# behaviour replay: (shape, cfg of spec/MC_BookOps.tla, cost settings, fraction of the transitions replayed per cost setting)
REPLAY = {"quick": [("chain", "MC_BookOps_chain.cfg", [(100, 200, 50), (1, 2, 1), (2, 4, 1)], 1.0),
                    ("diamond", "MC_BookOps_diamond.cfg", [(100, 200, 50), (1, 2, 1)], 0.1)],
          "thorough": [("chain", "MC_BookOps_chain.cfg", [(100, 200, 50), (1, 2, 1), (2, 4, 1), (1, 1, 1), (3, 5, 2)], 1.0),
                       ("diamond", "MC_BookOps_diamond.cfg", [(100, 200, 50), (1, 2, 1), (2, 4, 1)], 1.0)]}


def scenarios_from_tlc(shape, cfg, wd):
    """TLC enumerates the complete state graph of BookOps for the shape; every transition becomes one scenario:
    shortest operation path (BFS tree of the printed transitions) to its source state, then the transition itself."""
    r = vlib.tlc("MC_BookOps.tla", cfg, os.path.join(wd, "ops_" + shape), workers=1, timeout=900)
    if not r.ok:
        raise vlib.ToolFailure(f"TLC on MC_BookOps.tla/{cfg}: {r.out[-1500:]}")
    edges = []
    for line in r.out.split("\n"):
        if line.startswith('"{'):
            edges.append(json.loads(json.loads(line)))

    def key(st):
        return json.dumps(st, sort_keys=True)

    def opstr(e):
        return f"S:{e['n']}:{e['v']}" if e["op"] == "S" else f"T:{e['n']}"

    def apply(st, e):
        st = json.loads(json.dumps(st))
        if e["op"] == "S":
            st["val"][e["n"]] = e["v"]
        else:
            st["pend"][e["n"]] = not st["pend"][e["n"]]
        return st
    out = {}
    for e in edges:
        out.setdefault(key(e["src"]), []).append(e)
    # initial state: the only one in which every node is unsearched and nothing is pending
    init = [json.loads(k) for k in out if all(v == "INV" for v in json.loads(k)["val"].values()) and not any(json.loads(k)["pend"].values())]
    if len(init) != 1:
        raise vlib.ToolFailure("BookOps: initial state not found among the printed transitions")
    path = {key(init[0]): []}
    queue = [init[0]]
    while queue:
        st = queue.pop(0)
        for e in out.get(key(st), []):
            nx = apply(st, e)
            if key(nx) not in path:
                path[key(nx)] = path[key(st)] + [opstr(e)]
                queue.append(nx)
    scen = []
    for k, es in out.items():
        if k not in path:
            raise vlib.ToolFailure("BookOps: a printed source state is unreachable in the BFS tree")
        for e in es:
            scen.append(";".join(path[k] + [opstr(e)]))
    return scen, r.distinct, len(edges)


def run(tier, seed):
    rep = vlib.Report(PID, tier, seed, "model_checking")
    bdir, _ = vlib.build("plain", ["h_book", "h_bookexh"])
    wd = vlib.rundir(PID)
    tmp = os.path.join(wd, "tmp")
    os.makedirs(tmp, exist_ok=True)
    jobs = [(k,) + cfg for k, cfg in enumerate(SIZES[tier])]

    def gen(j):
        k, books, ops, maxn, every = j
        out = os.path.join(wd, f"bk.{k}.ndjson")
        costs = COSTS[k % len(COSTS)]
        p = vlib.sh([os.path.join(bdir, "h_book"), str(seed * 1000 + k), str(books), str(ops), str(maxn), str(every), out, tmp] + [str(c) for c in costs], timeout=3000)
        if p.returncode != 0:
            return out, {"error": f"rc={p.returncode} {p.stderr[-400:]}"}
        return out, json.loads(p.stdout.strip().split("\n")[-1])
    res = vlib.pmap(gen, jobs)
    files = []
    tot = {"ops": 0, "dumps": 0, "max_nodes": 0, "multi_parent_node_dumps": 0, "reloads": 0, "imports": 0}
    for out, info in res:
        if "error" in info:
            rep.violation("harness-crash", "h_book failed (assertion/crash in the book builder?): " + info["error"])
            continue
        files.append(out)
        for k in tot:
            tot[k] = max(tot[k], info[k]) if k == "max_nodes" else tot[k] + info[k]
    # design level: the propagation algorithm (BookProp.tla) against the equations, exhaustively on the small shapes;
    # the two defect switches must be refuted (vacuity controls)
    def mc(j):
        cfg, expect_hold = j
        r = vlib.tlc("MC_BookProp.tla", cfg, os.path.join(wd, "prop_" + cfg), workers=4, timeout=2400, xmx="4g")
        return cfg, expect_hold, r
    design = [("MC_BookProp_chain.cfg", True), ("MC_BookProp_chain_std.cfg", True), ("MC_BookProp_diamond.cfg", True),
              ("MC_BookProp_noqueue.cfg", False), ("MC_BookProp_oldwhite.cfg", False)]
    dres = []
    for cfg, expect_hold, r in vlib.pmap(mc, design, workers=5):
        if expect_hold:
            if r.violated:
                rep.violation("design:BookProp:" + cfg, f"BookProp.tla ({cfg}): the modelled propagation algorithm leaves the fixed point ({r.violated})",
                              text=r.out[-6000:])
            elif not r.ok:
                raise vlib.ToolFailure(f"MC_BookProp {cfg}: {r.out[-1200:]}")
            rep.add("states", r.distinct)
            rep.add("transitions", r.generated)
        elif not r.violated:
            raise vlib.ToolFailure(f"vacuity control failed: {cfg} (a known-defective propagation) was not refuted")
        dres.append({"cfg": cfg, "distinct_states": r.distinct, "refuted": bool(r.violated)})
    rep.cov["design_model_runs"] = dres
    # behaviour replay of the BookOps state graph
    import random
    rjobs = []
    nscen = ntrans = nstates = 0
    for shape, cfg, costs, frac in REPLAY[tier]:
        scen, dist, ned = scenarios_from_tlc(shape, cfg, wd)
        nstates += dist
        ntrans += ned
        for ci, c in enumerate(costs):
            rng = random.Random(seed * 131 + ci)
            mine = scen if frac >= 1.0 else rng.sample(scen, int(len(scen) * frac))
            nparts = max(1, min(8, len(mine) // 4000))
            for part in range(nparts):
                sf = os.path.join(wd, f"scen.{shape}.{ci}.{part}.txt")
                open(sf, "w").write("\n".join(mine[part::nparts]) + "\n")
                rjobs.append((shape, sf, os.path.join(wd, f"rp.{shape}.{ci}.{part}.ndjson"), c))
                nscen += len(mine[part::nparts])

    def rpl(j):
        shape, sf, out, c = j
        p = vlib.sh([os.path.join(bdir, "h_bookexh"), shape, sf, out] + [str(x) for x in c], timeout=3000)
        return out, (json.loads(p.stdout.strip().split("\n")[-1]) if p.returncode == 0 else {"error": f"rc={p.returncode} {p.stderr[-300:]}"})
    for out, info in vlib.pmap(rpl, rjobs):
        if "error" in info:
            rep.violation("harness-crash", "h_bookexh failed (assertion/crash in the book builder?): " + info["error"])
            continue
        files.append(out)
    vlib.linear_check(rep, SPEC, CFG, DIAG, files, wd)
    rep.cov.update(tot)
    rep.cov.update({"bookops_states": nstates, "bookops_transitions": ntrans, "scenarios_replayed": nscen})
    rep.cov["evaluations"] = tot["dumps"] + nscen
    rep.cov["distinct_nontrivial"] = tot["dumps"] + nscen
    rep.cov["rule"] = ("seeded operation sequences on books of up to 7 / 40 / 300 / 1500 nodes (quick), half of them with a tiny score alphabet; every dumped graph is a distinct history prefix; "
                       "each dump checks all five equation families on every node")
    rep.sample({"ops": ["add (random legal move under a random node, transposition-prone)", "search (score in [-300,300] / mate / 0 / IGNORE / INVALID, "
                        "dropout move legal / covered by a child / empty)", "pend / unpend", "reload (write + read)", "import (PGN of a random game)"]})
    rep.assumptions += ["behaviour replay: TLC enumerates the complete state graph of spec/BookOps.tla (inputs of a fixed 4-node chain / 6-node diamond with a transposition, small value alphabets); "
                        "every transition is replayed on a fresh real Book via its shortest operation path and the resulting graph is validated against BookGraph!FixedPoint",
                        "the harness reads node fields through the public getters and the friend class name BookBuildTest"]
    return rep.finish()


def replay(path):
    return vlib.replay_linear(PID, SPEC, DIAG, path)
