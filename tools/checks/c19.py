"""C19 - book-builder graph scores stay at their defined fixed point (spec/BookGraph.tla).
Random operation sequences (extend under random nodes incl. transpositions, search results incl. mate/INVALID/IGNORE, pending marks,
PGN import, save/load) are applied to the real BookBuild::Book through the friend class name BookBuildTest; after (every k-th) operation
the whole node graph is dumped and TLC evaluates FixedPoint: links, shortest depth, negamax, expansion costs, path errors; a reloaded
book must equal the saved graph."""
import json
import os

import vlib

PID = "C19"
SPEC, CFG, DIAG = "Tr_BookGraph.tla", "Tr_BookGraph.cfg", "Tr_BookGraph_diag.cfg"
#            (books, ops, maxNodes, dumpEvery)
SIZES = {"quick": [(6, 70, 40, 1)] * 10 + [(2, 400, 300, 20)] * 4 + [(1, 1500, 1500, 150)] * 2,
         "thorough": [(40, 90, 60, 1)] * 32 + [(6, 800, 500, 25)] * 16 + [(2, 4000, 3000, 200)] * 8}


def run(tier, seed):
    rep = vlib.Report(PID, tier, seed, "model_checking")
    bdir, _ = vlib.build("plain", ["h_book"])
    wd = vlib.rundir(PID)
    tmp = os.path.join(wd, "tmp")
    os.makedirs(tmp, exist_ok=True)
    jobs = [(k,) + cfg for k, cfg in enumerate(SIZES[tier])]

    def gen(j):
        k, books, ops, maxn, every = j
        out = os.path.join(wd, f"bk.{k}.ndjson")
        p = vlib.sh([os.path.join(bdir, "h_book"), str(seed * 1000 + k), str(books), str(ops), str(maxn), str(every), out, tmp], timeout=3000)
        if p.returncode != 0:
            return out, {"error": f"rc={p.returncode} {p.stderr[-400:]}"}
        return out, json.loads(p.stdout.strip().split("\n")[-1])
    res = vlib.pmap(gen, jobs)
    files = []
    tot = {"ops": 0, "dumps": 0, "max_nodes": 0, "multi_parent_node_dumps": 0, "reloads": 0, "imports": 0}
    for out, info in res:
        if "error" in info:
            rep.violation("harness-crash", "h_book failed (assertion/crash in the book builder?): " + info["error"])
            continue
        files.append(out)
        for k in tot:
            tot[k] = max(tot[k], info[k]) if k == "max_nodes" else tot[k] + info[k]
    vlib.linear_check(rep, SPEC, CFG, DIAG, files, wd)
    rep.cov.update(tot)
    rep.cov["evaluations"] = tot["dumps"]
    rep.cov["distinct_nontrivial"] = tot["dumps"]
    rep.cov["rule"] = ("seeded operation sequences on books of up to 40 / 300 / 1500 nodes (quick); every dumped graph is a distinct history prefix; "
                       "each dump checks all five equation families on every node")
    rep.sample({"ops": ["add (random legal move under a random node, transposition-prone)", "search (score in [-300,300] / mate / 0 / IGNORE / INVALID, "
                        "dropout move legal / covered by a child / empty)", "pend / unpend", "reload (write + read)", "import (PGN of a random game)"]})
    rep.assumptions += ["the harness reads node fields through the public getters and the friend class name BookBuildTest"]
    return rep.finish()


def replay(path):
    return vlib.replay_linear(PID, SPEC, DIAG, path)
