"""C14 - Clear Hash makes the next search identical to a fresh start (spec/Session.tla, Tr_Session.tla).
Process A replays a seeded prior session (1..40 searches of all limit kinds on unrelated positions, ucinewgame, option changes that
are reverted, 4-man roots that make a tablebase resident), then Clear Hash and a probe search; process B (fresh) runs the probe
twice.  Compared: best move, final exact score, final PV, final node count (periodic wall-clock driven lines are ignored)."""
import json
import os
import random
import time

import sessions
import uci
import vlib

PID = "C14"
SPEC, CFG, DIAG = "Tr_Session.tla", "Tr_Session.cfg", "Tr_Session_diag.cfg"
SIZES = {"quick": dict(n=48, maxprior=40, depths=(6, 8)), "thorough": dict(n=1500, maxprior=40, depths=(6, 11))}
DEFAULTS = {"Threads": "1", "Hash": "16", "MultiPV": "1", "UseNullMove": "true", "Strength": "1000", "Contempt": "0", "UCI_AnalyseMode": "false", "Ponder": "false"}
TERMINAL = ["7k/5Q2/6K1/8/8/8/8/8 b - - 0 1", "R5k1/5ppp/8/8/8/8/8/6K1 b - - 0 1", "rnb1kbnr/pppp1ppp/8/4p3/6Pq/5P2/PPPPP2P/RNBQKBNR w KQkq - 1 3",
            "k7/2Q5/1K6/8/8/8/8/8 b - - 0 1"]
TBFENS = ["8/8/8/3k4/8/3K4/4Q3/8 w - - 0 1", "8/8/8/3k4/8/3K4/4R3/8 w - - 0 1", "8/1r6/8/6k1/8/3K4/8/7Q w - - 0 1"]


def final_result(lines, wtm):
    best = lines[-1].split()[1] if lines and lines[-1].startswith("bestmove") else ""
    pv, score, nodes = "", "", -1
    for l in lines:
        d = uci.parse_info(l, wtm)
        if d:
            pv = " ".join(l.split(" pv ")[1].split()) if " pv " in l else ""
            score = f"{d['kind']} {d['val']} {d['bound']}".strip()
        elif l.startswith("info nodes "):
            nodes = int(l.split()[2])
    return {"best": best, "score": score, "pv": pv, "nodes": nodes}


def do_search(eng, fen, go, stop_after=None, timeout=120, must_finish=False):
    eng.send(f"position fen {fen}")
    eng.send("go " + go)
    if stop_after is not None:
        time.sleep(stop_after)
        eng.send("stop")
    lines, ok = eng.read_until(lambda l: l.startswith("bestmove"), timeout)
    if not ok and not must_finish:
        # a prior search only has to leave its traces in the engine's state: if it takes too long (loaded machine, wild position) it is
        # stopped like a GUI user would
        eng.send("stop")
        more, ok = eng.read_until(lambda l: l.startswith("bestmove"), 300)
        lines += more
    return lines if ok else None


def session(bdir, sid, seed, corpus, sz, contempt):
    rnd = random.Random(seed)
    net = rnd.choice(sessions.NETS)
    ev = [{"e": "Sess", "id": sid, "net": net}]
    fixed = {}
    if contempt:
        fixed["Contempt"] = str(contempt)
    tbsession = rnd.random() < 0.3     # the smallest table that can host an on-demand tablebase + a tablebase search right before Clear Hash
    # a session in which the contempt is changed for some searches and reverted before Clear Hash; small table and a deep probe, so that
    # anything left behind in the table's addressing or replacement shows up
    contemptsession = (not tbsession) and (not contempt) and rnd.random() < 0.3
    if tbsession:
        fixed["Hash"] = "8"
    elif contemptsession:
        fixed["Hash"] = "1"
    elif rnd.random() < 0.3:
        fixed["Hash"] = rnd.choice(["17", "24", "24", "40", "3"])      # sizes that are not a power of two (nor a multiple of 16 MB): clearing must reach the tail
    elif rnd.random() < 0.6:
        fixed["Hash"] = "1"        # a small table makes slot replacement (and hence the generation counter) matter early
    A = uci.Engine(os.path.join(bdir, "texel-" + net))
    try:
        for k, v in fixed.items():
            A.send(f"setoption name {k} value {v}")
            ev.append({"e": "Cmd", "proc": "A", "kind": "setoption", "name": k, "value": v, "isDefault": False})
        A.isready()
        nprior = rnd.choice([1, 2, 3, 5, 14, 15, 16, 17, 30, 31, 32, rnd.randint(1, sz["maxprior"])])
        changed = {}
        for i in range(nprior):
            r = rnd.random()
            if contemptsession and i == 0:
                val = rnd.choice(["150", "-150", "40"])
                A.send(f"setoption name Contempt value {val}")
                changed["Contempt"] = val
                ev.append({"e": "Cmd", "proc": "A", "kind": "setoption", "name": "Contempt", "value": val, "isDefault": False})
            elif r < 0.08:
                A.send("ucinewgame")
                ev.append({"e": "Cmd", "proc": "A", "kind": "newgame"})
            elif r < 0.2:
                name = rnd.choice(["MultiPV", "UseNullMove", "Strength", "UCI_AnalyseMode", "Threads", "Threads"] + ([] if "Hash" in fixed else ["Hash"]))
                val = {"MultiPV": "3", "UseNullMove": "false", "Strength": "500", "Hash": rnd.choice(["1", "64"]), "UCI_AnalyseMode": "true",
                       "Threads": rnd.choice(["2", "3", "4"])}[name]      # earlier searches may use helper threads; the probe runs on one thread again
                A.send(f"setoption name {name} value {val}")
                changed[name] = val
                ev.append({"e": "Cmd", "proc": "A", "kind": "setoption", "name": name, "value": val, "isDefault": False})
            root = rnd.choice(corpus)
            kind = rnd.choice(["depth", "depth", "depth", "nodes", "movetime", "infinite"])
            tb = False
            if kind == "depth":
                go, stop = f"depth {rnd.randint(1, 6)}", None
            elif kind == "nodes":
                go, stop = f"nodes {rnd.choice([100, 2000, 20000])}", None
            elif kind == "movetime":
                go, stop = f"movetime {rnd.choice([5, 30])}", None
            else:
                go, stop = "infinite", rnd.choice([0.01, 0.05])
            fen = root["fen"]
            if kind == "infinite" and rnd.random() < 0.4 and int(changed.get("Hash", fixed.get("Hash", "16"))) >= 8:
                fen, tb, stop = rnd.choice(TBFENS), True, 0.6
            lines = do_search(A, fen, go, stop)
            if lines is None:
                return ev, f"no-bestmove in prior search {i} ({go} on {fen})"
            ev.append({"e": "Cmd", "proc": "A", "kind": "search", "tb": tb, "go": go})
        probe = rnd.choice([r for r in corpus if r["hist"]] or corpus)
        probe = dict(probe)
        if rnd.random() < 0.3 and probe["fen"].split()[3] == "-":
            # the probe position again, earlier in the session, with another half-move clock: the two clocks share a bucket of the keys
            # the evaluation cache and the hash table use (Position::historyHash lumps clocks below 40 together), so whatever the first
            # search cached for this placement is still there when Clear Hash has done its work
            f = probe["fen"].split()
            h1, h2 = rnd.choice([0, 2, 5, 12, 20, 28]), rnd.choice([24, 26, 29, 30, 31, 35, 38, 39])
            lines = do_search(A, " ".join(f[:4] + [str(h1), "60"]), f"depth {rnd.randint(4, 6)}")
            if lines is None:
                return ev, "no-bestmove in same-placement prior search"
            ev.append({"e": "Cmd", "proc": "A", "kind": "search", "tb": False, "go": "same placement, other clock"})
            probe["fen"] = " ".join(f[:4] + [str(h2), "60"])
            probe["hist"] = []
        if probe["hist"] and rnd.random() < 0.6:
            # a related prior search: the position one ply before the probe position (same game, other side to move)
            A.send(f"position fen {probe['start']} moves {' '.join(probe['hist'][:-1])}".rstrip().replace(" moves", " moves" if len(probe["hist"]) > 1 else ""))
            A.send(f"go depth {rnd.randint(5, 7)}")
            lines, ok = A.read_until(lambda l: l.startswith("bestmove"), 120)
            if not ok:
                A.send("stop")
                more, ok = A.read_until(lambda l: l.startswith("bestmove"), 300)
            if not ok:
                return ev, "no-bestmove in related prior search"
            ev.append({"e": "Cmd", "proc": "A", "kind": "search", "tb": False, "go": "related"})
        if fixed.get("Hash") in ("17", "24", "40", "3"):
            # the probe position itself, searched before Clear Hash: whatever part of the table the clearing misses still holds exactly
            # the entries the probe will ask for
            lines = do_search(A, probe["fen"], f"depth {rnd.randint(6, 7)} nodes 400000")
            if lines is None:
                return ev, "no-bestmove in same-position prior search"
            ev.append({"e": "Cmd", "proc": "A", "kind": "search", "tb": False, "go": "probe position itself"})
        if tbsession:
            lines = do_search(A, rnd.choice(TBFENS), "infinite", 0.8)
            if lines is None:
                return ev, "no-bestmove in tablebase prior search"
            ev.append({"e": "Cmd", "proc": "A", "kind": "search", "tb": True, "go": "infinite(tb)"})
        for name in changed:       # revert option changes
            A.send(f"setoption name {name} value {DEFAULTS[name]}")
            ev.append({"e": "Cmd", "proc": "A", "kind": "setoption", "name": name, "value": DEFAULTS[name], "isDefault": True})
        A.send("setoption name Clear Hash")
        ev.append({"e": "Cmd", "proc": "A", "kind": "clearhash"})
        A.isready()
        # a 'go' that is answered without searching (no legal move, or a move of the built-in book) between Clear Hash and the probe: it
        # leaves nothing behind (Session.tla: no state change), so the probe must still equal that of a fresh engine given the same commands
        nosearch = []
        if rnd.random() < 0.35:
            if rnd.random() < 0.6:
                nosearch = [f"position fen {rnd.choice(TERMINAL)}", "go depth 3"]
            else:
                nosearch = ["setoption name OwnBook value true", "position startpos", "go depth 3", "setoption name OwnBook value false"]

        def run_nosearch(E, proc):
            for c in nosearch:
                E.send(c)
                if c.startswith("go"):
                    lines, ok = E.read_until(lambda l: l.startswith("bestmove"), 120)
                    if not ok:
                        return False
                    if any(l.startswith("info depth") for l in lines):
                        return None          # the engine searched after all (book miss): not the history wanted here
            if nosearch:
                E.isready()
                if proc != "B2":
                    ev.append({"e": "Cmd", "proc": proc, "kind": "nosearch", "go": " | ".join(nosearch)})
            return True
        r0 = run_nosearch(A, "A")
        if r0 is False:
            return ev, "no-bestmove in search-less go (A)"
        if r0 is None:
            return [ev[0]], "ok"       # dropped: nothing to compare
        wtm = " w " in probe["fen"]
        if tbsession or contemptsession:
            go = rnd.choice(["nodes 150000", "nodes 300000", "depth 10"])
        elif rnd.random() < 0.8:
            go = f"depth {rnd.randint(*sz['depths'])} nodes 600000"       # the node cap bounds the running time (random-valued nets order moves badly: depth 11 can take an hour)
        else:
            go = f"nodes {rnd.choice([5000, 30000, 80000])}"
        cmd = f"{' ; '.join(nosearch)}{' ; ' if nosearch else ''}position fen {probe['fen']} ; go {go} ; net {net} ; {fixed}"
        lines = do_search(A, probe["fen"], go, timeout=900, must_finish=True)      # probes must run to their own end; generous time-out
        if lines is None:
            return ev, "no-bestmove in probe (A)"
        ra = final_result(lines, wtm)
        ev.append(dict({"e": "Probe", "proc": "A", "cmd": cmd, "prior": nprior}, **ra))
        A.quit()
        for proc in ("B", "B2"):
            B = uci.Engine(os.path.join(bdir, "texel-" + net))
            try:
                for k, v in fixed.items():
                    B.send(f"setoption name {k} value {v}")
                    if proc == "B":
                        ev.append({"e": "Cmd", "proc": "B", "kind": "setoption", "name": k, "value": v, "isDefault": False})
                B.isready()
                if run_nosearch(B, proc) is not True:
                    return ev, f"search-less go behaved differently in the fresh engine ({proc})"
                lines = do_search(B, probe["fen"], go, timeout=900, must_finish=True)
                if lines is None:
                    return ev, f"no-bestmove in probe ({proc})"
                ev.append(dict({"e": "Probe", "proc": proc, "cmd": cmd, "prior": nprior}, **final_result(lines, wtm)))
                B.quit()
            finally:
                B.kill()
        return ev, "ok"
    finally:
        A.kill()


def run(tier, seed):
    rep = vlib.Report(PID, tier, seed, "model_checking")
    bdir, _ = vlib.build("plain", ["h_fens"] + ["texel-" + n for n in sessions.NETS])
    wd = vlib.rundir(PID)
    sz = SIZES[tier]
    corpus = [r for r in sessions.corpus(bdir, seed, 300) if r["nlegal"] > 1]
    rnd = random.Random(seed * 101 + 14)
    jobs = [(i, seed * 1000003 + i, rnd.choice([0, 0, 0, 50, -200, 200])) for i in range(sz["n"])]
    results = vlib.pmap(lambda j: session(bdir, j[0], j[1], corpus, sz, j[2]), jobs, workers=14)
    nfiles = 8
    files = [os.path.join(wd, f"ss.{k}.ndjson") for k in range(nfiles)]
    fh = [open(f, "w") for f in files]
    for f in fh:
        f.write(json.dumps({"e": "Meta", "check": PID}) + "\n")
    priors = []
    for (i, s, c), (ev, status) in zip(jobs, results):
        if status != "ok":
            rep.violation(f"session:{status}", f"session {i} (seed {s}): {status}")
            continue
        for e in ev:
            fh[i % nfiles].write(json.dumps(e) + "\n")
        pa = [e for e in ev if e["e"] == "Probe" and e["proc"] == "A"]
        if pa:
            priors.append(pa[0]["prior"])
            if len(rep.cov["samples"]) < 4:
                rep.sample({"probe": pa[0]["cmd"], "prior_searches": pa[0]["prior"], "result": {k: pa[0][k] for k in ("best", "score", "nodes")}})
    for f in fh:
        f.close()

    def keyfn(line, names):
        try:
            d = json.loads(line)
        except Exception:
            d = {}
        tag = "contempt" if "'Contempt'" in d.get("cmd", "") else "plain"
        return f"{';'.join(names)}:{tag}"
    vlib.linear_check(rep, SPEC, CFG, DIAG, files, wd, context_marker='{"e": "Sess"', keyfn=keyfn)
    rep.cov["sessions"] = len(jobs)
    rep.cov["prior_search_counts"] = sorted(set(priors))
    rep.cov["evaluations"] = len(jobs)
    rep.cov["distinct_nontrivial"] = len(set(j[1] for j in jobs))
    rep.cov["rule"] = ("each session = seeded prior history (1..40 searches of depth/nodes/movetime/infinite kinds, ucinewgame, reverted option changes, "
                       "on-demand tablebase roots, fixed Contempt in {0,50,-200,200}) + Clear Hash + probe; fresh process runs the probe twice; "
                       "all sessions distinct and non-trivial")
    rep.assumptions += ["Threads=1; periodic 'info nodes'/'currmove' lines are wall-clock driven and excluded; the final 'info nodes' line is compared"]
    return rep.finish()


def replay(path):
    return vlib.replay_linear(PID, SPEC, DIAG, path)
