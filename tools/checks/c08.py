"""C08 - the transposition table never returns mixed or out-of-range data.
(i) TTSlot.tla: TLC exhausts writers x prober on one two-word slot, both word orders per store/load: HitIsAUnit (the un-xored and the data-word-read-twice mutant
    configuration must be refuted: vacuity control).  (ii) TTIndex.tla: the index lemma for every table size, discharged by Apalache
    (unbounded integers).  (iii) the real table: concurrent hammer on few buckets with catalogue units (every distinct probe result
    must be a catalogue unit for that key), index records for many sizes incl. the reduced size with a resident tablebase checked against
    the same formula, mate-score ply shift, tablebase region untouched by hash traffic - all validated by TLC (Tr_TT.tla).
(iv) TBLife.tla: life cycle of the on-demand tablebase inside the table (updateTB / clear / reSize / hash traffic), invariants exhausted by TLC, two defect
    switches refuted; random call histories on one real table object judged by Tr_TBLife.tla with the model stepped alongside."""
import json
import os
import subprocess

import vlib

PID = "C08"
SPEC, CFG, DIAG = "Tr_TT.tla", "Tr_TT.cfg", "Tr_TT_diag.cfg"
SIZES = {"quick": dict(deci=12, combos=[(2, 512), (4, 1024), (8, 512), (16, 4096), (16, 512), (3, 2048)]),
         "thorough": dict(deci=100, combos=[(t, e) for t in (2, 3, 4, 8, 12, 16) for e in (512, 1024, 4096, 65536)])}


def run(tier, seed):
    rep = vlib.Report(PID, tier, seed, "model_checking")
    bdir, _ = vlib.build("plain", ["h_tt"])
    wd = vlib.rundir(PID)
    sz = SIZES[tier]
    # (i) slot model
    r = vlib.tlc("TTSlot.tla", "TTSlot.cfg", os.path.join(wd, "slot"), workers=8, timeout=1800, xmx="8g")
    if r.violated:
        rep.violation("design:TTSlot:" + r.violated, "TTSlot.tla violates " + r.violated, files=[os.path.join(wd, "slot", "tlc.out")])
    elif not r.ok:
        raise vlib.ToolFailure("TTSlot: " + r.out[-800:])
    rep.add("states", r.distinct)
    rep.add("transitions", r.generated)
    rm = vlib.tlc("TTSlot.tla", "TTSlot_mutant.cfg", os.path.join(wd, "slotm"), workers=8, timeout=1800, xmx="8g")
    rep.cov["slot_model_refutes_unxored_store"] = bool(rm.violated)
    if not rm.violated:
        raise vlib.ToolFailure("vacuity control failed: TTSlot with XorEncoding=FALSE was not refuted")
    rr = vlib.tlc("TTSlot.tla", "TTSlot_reread.cfg", os.path.join(wd, "slotr"), workers=8, timeout=1800, xmx="8g")
    rep.cov["slot_model_refutes_second_data_read"] = bool(rr.violated)
    if not rr.violated:
        raise vlib.ToolFailure("vacuity control failed: TTSlot with RereadData=TRUE was not refuted")
    # (i') record assembly of insert(): the "keep the old move for an empty-move store" rule applies within one key only
    ri = vlib.tlc("MC_TTInsert.tla", "TTInsert.cfg", os.path.join(wd, "ins"), workers=4, timeout=600)
    if not ri.ok:
        if ri.violated:
            rep.violation("design:TTInsert:" + ri.violated, f"TTInsert.tla violates {ri.violated}", files=[os.path.join(wd, "ins", "tlc.out")])
        else:
            raise vlib.ToolFailure("TTInsert.tla: " + ri.out[-800:])
    rep.add("states", ri.distinct)
    rep.add("transitions", ri.generated)
    rj = vlib.tlc("MC_TTInsert.tla", "TTInsert_defect.cfg", os.path.join(wd, "insd"), workers=4, timeout=600)
    rep.cov["insert_model_refutes_key_set_before_move_test"] = bool(rj.violated)
    if rj.violated != "MoveBelongsToKey":
        raise vlib.ToolFailure("vacuity control failed: TTInsert with SetKeyFirst=TRUE was not refuted")
    # (i'') life cycle of the on-demand tablebase inside the table: design invariants, two defect switches that must be refuted
    rl = vlib.tlc("TBLife.tla", "MC_TBLife.cfg", os.path.join(wd, "life"), workers=4, timeout=600)
    if not rl.ok:
        if rl.violated:
            rep.violation("design:TBLife:" + rl.violated, f"TBLife.tla violates {rl.violated}", files=[os.path.join(wd, "life", "tlc.out")])
        else:
            raise vlib.ToolFailure("TBLife.tla: " + rl.out[-800:])
    rep.add("states", rl.distinct)
    rep.add("transitions", rl.generated)
    for cfgname, inv, covkey in (("MC_TBLife_noreset.cfg", "ResidentIntact", "life_model_refutes_handle_kept_after_abort"),
                                 ("MC_TBLife_clearsize.cfg", "FreshAfterClear", "life_model_refutes_clear_keeping_reduced_size")):
        rx = vlib.tlc("TBLife.tla", cfgname, os.path.join(wd, "lifed"), workers=4, timeout=600)
        rep.cov[covkey] = rx.violated == inv
        if rx.violated != inv:
            raise vlib.ToolFailure(f"vacuity control failed: TBLife with {cfgname} was not refuted by {inv}")
    # (ii) index lemma
    try:
        p = subprocess.run(["apalache-mc", "check", "--length=0", "--inv=IndexSafe", "--init=Init", "--next=Next", f"--out-dir={wd}/apalache",
                            os.path.join(vlib.SPEC, "TTIndex.tla")], cwd=wd, stdout=subprocess.PIPE, stderr=subprocess.STDOUT, text=True, timeout=900)
        lemma = "NoError" in p.stdout and "EXITCODE: OK" in p.stdout
        if "violat" in p.stdout.lower() and not lemma:
            rep.violation("design:TTIndex", "Apalache refutes IndexSafe: " + p.stdout[-600:])
        elif not lemma:
            raise vlib.ToolFailure("apalache failed: " + p.stdout[-800:])
    except subprocess.TimeoutExpired:
        raise vlib.ToolFailure("apalache timeout on TTIndex.tla")
    rep.cov["index_lemma"] = {"tool": "apalache-mc check --length=0 --inv=IndexSafe TTIndex.tla", "obligations": 1, "discharged": 1 if lemma else 0}
    # (iii) real table
    h = os.path.join(bdir, "h_tt")
    jobs = [("hammer", [str(seed * 10 + i), str(t), str(e), str(sz["deci"])]) for i, (t, e) in enumerate(sz["combos"])]
    jobs += [("index", [str(seed)]), ("misc", [str(seed)]), ("life", [str(seed), "200" if tier == "quick" else "4000"])]
    files, infos, lifefiles = [], [], []
    # hammer runs use many threads each: run them one after another, the cheap ones last
    for k, (mode, args) in enumerate(jobs):
        out = os.path.join(wd, f"tt_{mode}_{k}.ndjson")
        pr = vlib.sh([h, mode] + args + [out], timeout=3000)
        if pr.returncode != 0:
            rep.violation(f"harness-crash:{mode}", f"h_tt {mode} {args} exited {pr.returncode}: {pr.stderr[-400:]}")
            continue
        (lifefiles if mode == "life" else files).append(out)
        infos.append(json.loads(pr.stdout.strip().split("\n")[-1]))
    vlib.linear_check(rep, SPEC, CFG, DIAG, files, wd)
    # call histories of the tablebase life cycle: judged rules by Tr_TBLife; the design model TBLife.tla is stepped alongside and a
    # difference between its projection and the logged state is counted as drift (recorded, not a verdict)
    vlib.linear_check(rep, "Tr_TBLife.tla", "Tr_TBLife.cfg", "Tr_TBLife_diag.cfg", lifefiles, wd, context_marker='{"e":"Reset"')
    drift = 0
    for lf in lifefiles:
        rd = vlib.tlc("Tr_TBLife.tla", "Tr_TBLife.cfg", os.path.join(wd, "lifedrift"), env={"TRACE": lf}, timeout=1500)
        drift += sum(1 for p_ in rd.prints if "DRIFT" in p_)
    rep.cov["life_records"] = sum(i.get("life_records", 0) for i in infos)
    rep.cov["life_histories"] = sum(i.get("life_histories", 0) for i in infos)
    rep.cov["life_model_drift_records"] = drift
    st = sum(i.get("stores", 0) for i in infos)
    pb = sum(i.get("probes", 0) for i in infos)
    rep.cov.update({"hammer_runs": len(sz["combos"]), "hammer_stores": st, "hammer_probes": pb, "hammer_hits": sum(i.get("hits", 0) for i in infos),
                    "index_records": sum(i.get("index_records", 0) for i in infos), "misc_records": sum(i.get("misc_records", 0) for i in infos)})
    rep.cov["evaluations"] = st + pb
    rep.cov["distinct_nontrivial"] = sum(i.get("distinct_hits", 0) for i in infos) + sum(i.get("index_records", 0) for i in infos)
    rep.cov["rule"] = ("hammer: threads x table sizes, 48 keys on <=3 buckets, 6 catalogue units per key, probe results deduplicated; index: 39 table sizes "
                       "(1..256 MB, non powers of two, reduced size with resident tablebase) x boundary high/low key bits; distinct = distinct probe results + index records")
    rep.sample({"combos(threads,entries)": sz["combos"]})
    rep.assumptions += ["hardware reordering of the two relaxed word accesses is covered by the TTSlot model only; the hammer observes what this CPU produces",
                        "table sizes beyond 2^31 entries are covered by the Apalache lemma only"]
    return rep.finish()


def replay(path):
    return vlib.replay_linear(PID, SPEC, DIAG, path)
