"""C10 - search control always terminates with exactly one result.
(1) TLC model-checks the design model spec/SearchControl.tla (all interleavings of protocol, engine and helper threads for small
    configurations: deadlock freedom, AtMostOneBest, Quiescent, AckNonNeg, ResultFresh; liveness under fairness).
(2) The real engine, built with the TEXEL_VERIF hooks, is run on seeded command scripts under seeded priority-based schedule
    perturbation; the event trace recorded at the linearization points is validated by TLC against spec/Tr_Control.tla, which
    reconstructs mailboxes / ack counters / job ids with the design's transition rules and evaluates the property monitor.
    A hang (watchdog), crash, or missing bestmove is a violation; 'Design:*' mismatches are MODEL-DRIFT."""
import json
import os
import random

import ctlrun
import sessions
import vlib

PID = "C10"
SPEC, CFG, DIAG = "Tr_Control.tla", "Tr_Control.cfg", "Tr_Control_diag.cfg"
SIZES = {"quick": dict(runs=240, files=16, enum_len=4, enum_sample=170, deep=6), "thorough": dict(runs=14000, files=64, enum_len=4, enum_sample=None, deep=150)}


def model_check(rep, wd, tier):
    cfgs = ["MC_SearchControl_quick.cfg", "MC_SearchControl_b2b.cfg", "MC_SearchControl_opts.cfg", "MC_SearchControl_ponder.cfg",
            "MC_SearchControl.cfg", "MC_SearchControl_live.cfg"]
    if tier == "thorough":
        cfgs += ["MC_SearchControl_h3.cfg", "MC_SearchControl_h3ponder.cfg"]
    for cfg in cfgs:
        if not os.path.exists(os.path.join(vlib.SPEC, cfg)):
            continue
        r = vlib.tlc("MC_SearchControl.tla", cfg, os.path.join(wd, "mc_" + cfg), workers=8, timeout=3000, xmx="12g")
        if r.violated:
            rep.violation(f"design:{cfg}:{r.violated}", f"the design model violates {r.violated} ({cfg}); counterexample in tlc.out",
                          files=[os.path.join(wd, "mc_" + cfg, "tlc.out")])
        elif not r.ok:
            raise vlib.ToolFailure(f"TLC failed on {cfg}: {r.out[-1500:]}")
        rep.add("states", r.distinct)
        rep.add("transitions", r.generated)
        rep.cov.setdefault("design_model_runs", []).append({"cfg": cfg, "distinct_states": r.distinct, "diameter": r.diameter})


def defect_control(rep, wd):
    """The options-barrier defect switch of the design model (barrier opens when the batch is taken) must be refuted."""
    r = vlib.tlc("MC_SearchControl.tla", "MC_SearchControl_optsdefect.cfg", os.path.join(wd, "mc_optsdefect"), workers=4, timeout=900, xmx="8g")
    if r.violated != "OptionsInEffectAtGo":
        raise vlib.ToolFailure("vacuity control failed: SearchControl with BarrierOnTaken=TRUE was not refuted: " + r.out[-600:])
    rep.cov["design_defect_switches_refuted"] = ["BarrierOnTaken (OptionsInEffectAtGo)"]


def run(tier, seed):
    rep = vlib.Report(PID, tier, seed, "model_checking")
    bdir, _ = vlib.build("plain", ["texel-" + n for n in sessions.NETS])
    wd = vlib.rundir(PID)
    sz = SIZES[tier]
    model_check(rep, wd, tier)
    defect_control(rep, wd)
    rnd = random.Random(seed * 1009 + 10)
    jobs = []
    for i in range(sz["runs"]):
        kind, script = ctlrun.gen_script(rnd)
        jobs.append((i, kind, script, rnd.randint(1, 10**9), rnd.choice(sessions.NETS)))
    # every command order of length <= enum_len over a 9-command alphabet (7380 for length 4): all of length <= 2 always,
    # the longer ones all (thorough) or a seeded sample (quick)
    seqs = ctlrun.enum_scripts(sz["enum_len"])
    short = [q for q in seqs if len(q) <= 2]
    longer = [q for q in seqs if len(q) > 2]
    if sz["enum_sample"] is not None:
        longer = rnd.sample(longer, max(0, sz["enum_sample"] - len(short)))
    for q in short + longer:
        kind, script = ctlrun.enum_script(q, rnd)
        jobs.append((len(jobs), kind, script, rnd.randint(1, 10**9), rnd.choice(sessions.NETS)))
    rep.cov["enumerated_command_orders"] = {"alphabet": ctlrun.ENUM_ALPHABET, "max_length": sz["enum_len"], "all_of_that_length": len(seqs),
                                            "run": len(short) + len(longer)}

    bad = []          # once a few runs hung or crashed there is no point in waiting for hundreds of watchdog time-outs

    def one(j):
        i, kind, script, sseed, net = j
        tp = os.path.join(wd, f"run{i}.ndjson")
        if len(bad) >= 4:
            return "skipped", [], "", tp
        rc, out, err = ctlrun.run_script(os.path.join(bdir, "texel-" + net), script, sseed, tp, watchdog=90 if kind == "deep_tree" else 25)
        if rc != 0:
            bad.append(i)
        return rc, out, err, tp
    results = vlib.pmap(one, jobs, workers=10)
    # three-level helper trees (22+ threads each) are run two at a time, after the others, with a longer watchdog
    djobs = []
    for _ in range(sz["deep"]):
        kind, script = ctlrun.gen_script(rnd, "deep_tree")
        djobs.append((len(jobs) + len(djobs), kind, script, rnd.randint(1, 10**9), rnd.choice(sessions.NETS)))
    results += vlib.pmap(one, djobs, workers=2)
    jobs += djobs
    files = [os.path.join(wd, f"ctl.{k}.ndjson") for k in range(sz["files"])]
    fh = [open(f, "w") for f in files]
    kinds = {}
    nev = 0
    for (i, kind, script, sseed, net), (rc, out, err, tp) in zip(jobs, results):
        if rc == "skipped":
            continue
        kinds[kind] = kinds.get(kind, 0) + 1
        desc = json.dumps({"script": script, "sched_seed": sseed, "net": net})
        ngo = sum(1 for c, _ in script if c.startswith("go"))
        nbest = sum(1 for l in out if l.startswith("bestmove"))
        if rc != 0:
            rep.violation(f"run:{'hang' if rc in ('hang', 97) else 'exit-' + str(rc)}", f"engine run ended with {rc} ({'lost wake-up / deadlock / livelock' if rc in ('hang', 97) else 'crash'}): {desc[:600]}",
                          files=[tp], text=desc + "\n" + err)
        elif nbest != ngo:
            rep.violation("run:bestmove-count", f"{ngo} go commands but {nbest} bestmove lines: {desc[:600]}", files=[tp], text=desc + "\n" + "\n".join(out[-30:]))
        o = fh[i % len(fh)]
        o.write(json.dumps({"e": "Reset", "n": 0, "t": 0, "o": -1, "a": i, "b": 0}) + "\n")
        if os.path.exists(tp):
            body = ctlrun.annotate(open(tp).read())
            nev += body.count("\n")
            o.write(body)
            os.remove(tp)
        if rc == 0:
            o.write(json.dumps({"e": "End", "n": 0, "t": 0, "o": -1, "a": i, "b": 0}) + "\n")
        if i < 3:
            rep.sample({"kind": kind, "script": [c for c, _ in script], "sched_seed": sseed, "bestmoves": nbest})
    for f in fh:
        f.close()

    drift = []

    def keyfn(line, names):
        return "monitor:" + ";".join(names)
    before = len(rep.violations)
    vlib.linear_check(rep, SPEC, CFG, DIAG, files, wd, context_marker='{"e": "Reset"', meta_line=False, keyfn=keyfn)
    # design-level mismatches only (MODEL-DRIFT) are not violations
    kept = []
    for v in rep.violations[before:]:
        names = [n for n in (v[0].split(":", 1)[1].split(";") if ":" in v[0] else []) if n]
        if not names:
            raise vlib.ToolFailure("trace spec has no enabled step for a recorded event (spec/hook mismatch): " + v[1][:300])
        if all(n.startswith("Design") for n in names):
            drift.append(v[1][:300])
        else:
            kept.append(v)
    rep.violations[before:] = kept
    if drift:
        print(f"MODEL-DRIFT {PID}: {len(drift)} trace(s) deviate from the design model without violating the property monitor: {drift[0]}")
        rep.cov["model_drift"] = drift[:5]
    rep.cov.update({"controlled_runs": len(jobs), "script_kinds": kinds, "trace_events": nev})
    rep.cov["evaluations"] = len(jobs)
    rep.cov["distinct_nontrivial"] = len({(json.dumps(j[2]), j[3]) for j in jobs})
    rep.cov["rule"] = ("seeded command scripts {go/finish, go/stop, ponder/ponderhit, ponder/stop, back-to-back go, Threads change between searches, quit during "
                       "search, mixed, and every command order of length <= 2 plus a seeded sample of the orders of length 3..4 over a 9-command alphabet} x Threads 1..8 (plus a few 'deep_tree' runs with 22..27 threads, where the helper tree has three levels) x seeded PCT-style schedule perturbation at the hooked synchronisation points; distinct (script, schedule seed)")
    rep.assumptions += ["real-code schedules are sampled (seeded priority perturbation), not enumerated; exhaustive interleaving coverage is on the TLA+ design model only",
                        "events carry a global sequence number taken inside the critical section that protects the state change"]
    return rep.finish()


def replay(path):
    return vlib.replay_linear(PID, SPEC, DIAG, path)
