"""C16 - reachable positions are never declared illegal; proof games are valid (spec/Tr_Proof.tla over Chess.tla).
Random legal games from the initial position (1..150 plies, >= 26 men) give positions that are reachable by construction (TLC re-checks
the generating game against the rule book).  `texelutil proofgame -f -o` classifies their final positions: an 'illegal' verdict is a
violation with the game as witness; every printed proof game is validated by TLC as a legal game from the initial position ending in the
goal.  ProofGame::distLowerBound(prefix -> final) must not exceed the game's own continuation."""
import glob
import json
import os
import re
import subprocess

import vlib

PID = "C16"
SPEC, CFG, DIAG = "Tr_Proof.tla", "Tr_Proof.cfg", "Tr_Proof_diag.cfg"
SIZES = {"quick": dict(games=48, filter_s=50, kgames=1400, pathgames=96, kingpair_games=24000, bound_games=1500, per=10), "thorough": dict(games=3000, filter_s=2400, kgames=30000, pathgames=3000, kingpair_games=600000, bound_games=40000, per=16)}


def run(tier, seed):
    rep = vlib.Report(PID, tier, seed, "model_checking")
    bdir, _ = vlib.build("plain", ["h_proof", "texelutil"])
    wd = vlib.rundir(PID)
    sz = SIZES[tier]
    hp = os.path.join(bdir, "h_proof")
    games, fens = os.path.join(wd, "games.txt"), os.path.join(wd, "fens.txt")
    p = vlib.sh([hp, "games", str(seed), str(sz["games"]), games, fens], timeout=600)
    if p.returncode != 0:
        raise vlib.ToolFailure("h_proof games: " + p.stderr[-300:])
    outbase = os.path.join(wd, "pgout")
    try:
        with open(fens) as fi, open(os.path.join(wd, "filter.log"), "w") as lo:
            fr = subprocess.run([os.path.join(bdir, "texelutil"), "-j", "16", "proofgame", "-f", "-o", outbase], stdin=fi, stdout=lo, stderr=subprocess.STDOUT,
                                timeout=sz["filter_s"])
        if fr.returncode != 0:
            rep.violation("filter-crash", f"texelutil proofgame -f exited {fr.returncode}", files=[os.path.join(wd, "filter.log")])
    except subprocess.TimeoutExpired:
        rep.cov["filter_time_boxed"] = True       # remaining positions keep their last complete classification
    outs = sorted(glob.glob(outbase + "[0-9][0-9]"))
    nlines = len(open(fens).read().strip().split("\n"))
    complete = [o for o in outs if len(open(o).read().strip().split("\n")) == nlines]
    if not complete:
        raise vlib.ToolFailure("proofgame filter produced no complete output file within its time box")
    tr = os.path.join(wd, "pg.ndjson")
    pc = vlib.sh([hp, "convert", games, complete[-1], tr], timeout=600)
    if pc.returncode != 0:
        raise vlib.ToolFailure("h_proof convert: " + pc.stderr[-300:])
    info = json.loads(pc.stdout.strip().split("\n")[-1])
    # first-stage verdicts (static rules, distance heuristic, proof kernel, extended kernel; 'illegal' can only come from this stage)
    # on a much larger set of reachable positions: 'texelutil proofgame -f' without the iterated path / proof game search
    kg, kf = os.path.join(wd, "kgames.txt"), os.path.join(wd, "kfens.txt")
    vlib.sh([hp, "games", str(seed + 9000), str(sz["kgames"]), kg, kf], timeout=900)
    kgl, kfl = open(kg).read().strip().split("\n"), open(kf).read().strip().split("\n")
    tu = os.path.join(bdir, "texelutil")

    def filt(fens, tag):
        """one single-threaded 'proofgame -f' process on a list of FENs -> (return code, output lines)"""
        inp, outp = os.path.join(wd, f"kin.{tag}.txt"), os.path.join(wd, f"kout.{tag}.txt")
        open(inp, "w").write("\n".join(fens) + "\n")
        with open(inp) as fi, open(outp, "w") as fo, open(os.path.join(wd, f"kfilter.{tag}.log"), "w") as lo:
            r = subprocess.run([tu, "-j", "1", "proofgame", "-f"], stdin=fi, stdout=fo, stderr=lo, timeout=6000)
        return r.returncode, [x for x in open(outp).read().split("\n") if x.strip()]
    # chunks, so that an abort of the tool (a failed assertion in the kernel code) loses one chunk only and can be pinned to a position
    chunk = 25
    cjobs = [(c, list(range(c, min(c + chunk, len(kfl))))) for c in range(0, len(kfl), chunk)]

    def runchunk(j):
        c, idx = j
        rc, lines = filt([kfl[i] for i in idx], f"c{c}")
        if rc == 0 and len(lines) == len(idx):
            return [(i, ln) for i, ln in zip(idx, lines)], None
        # find the position the tool dies on: one process per position
        done, crash = [], None
        for i in idx:
            rc1, l1 = filt([kfl[i]], f"c{c}.s")
            if rc1 == 0 and len(l1) == 1:
                done.append((i, l1[0]))
            elif crash is None:
                crash = (i, rc1)
        return done, crash
    answered = []
    for done, crash in vlib.pmap(runchunk, cjobs):
        answered += done
        if crash:
            i, rc1 = crash
            wit = os.path.join(wd, f"crash_{i}.txt")
            open(wit, "w").write(kfl[i] + "\n" + kgl[i] + "\n")
            rep.violation("filter-crash", f"texelutil proofgame -f dies (exit {rc1}) on the reachable position {kfl[i]} (game: {kgl[i][:200]})", files=[wit])
    kinfo = {"positions": 0, "legal": 0, "unknown": 0, "illegal": 0}
    kfiles = []
    kparts = 10
    for k in range(kparts):
        mine = answered[k::kparts]
        if not mine:
            continue
        gp, op_, tp = os.path.join(wd, f"kg.{k}.txt"), os.path.join(wd, f"ko.{k}.txt"), os.path.join(wd, f"kpg.{k}.ndjson")
        open(gp, "w").write("\n".join(kgl[i] for i, _ in mine) + "\n")
        open(op_, "w").write("\n".join(ln for _, ln in mine) + "\n")
        pk = vlib.sh([hp, "convert", gp, op_, tp], timeout=600)
        if pk.returncode != 0:
            raise vlib.ToolFailure("h_proof convert: " + pk.stderr[-300:])
        ki = json.loads(pk.stdout.strip().split("\n")[-1])
        for x in kinfo:
            kinfo[x] += ki[x]
        kfiles.append(tp)
    # proofs from an initial path: 'texelutil proofgame -ipgn <game> <goal>' starts from a given game.  Games that return to earlier
    # positions and leave them by another move exercise the pruning of repeated positions in that path; the printed proof game must be
    # a legal game ending in the goal like any other.
    sg, sf, sdir = os.path.join(wd, "sgames.txt"), os.path.join(wd, "sfens.txt"), os.path.join(wd, "spgn")
    os.makedirs(sdir, exist_ok=True)
    vlib.sh([hp, "games", str(seed + 7000), str(sz["pathgames"]), sg, sf, "26", "shuffle"], timeout=900)
    vlib.sh([hp, "pgn", sg, sdir], timeout=900)
    sgl, sfl = open(sg).read().strip().split("\n"), open(sf).read().strip().split("\n")

    def ipgn(k):
        if not sgl[k].strip():
            return None
        try:
            r = subprocess.run([tu, "proofgame", "-ipgn", os.path.join(sdir, f"g{k}.pgn"), sfl[k]], stdout=subprocess.PIPE, stderr=subprocess.STDOUT, text=True, timeout=40)
        except subprocess.TimeoutExpired:
            return (k, sfl[k] + " unknown: timeout")
        if r.returncode != 0:
            return (k, None, r.returncode, r.stdout[-300:])
        lines = r.stdout.strip().split("\n")
        proof = None
        for i, ln in enumerate(lines):
            if re.match(r"^\d+ -w ", ln) and i + 1 < len(lines):
                proof = lines[i + 1].strip()
        return (k, sfl[k] + (" legal: proof: " + proof if proof is not None else " unknown: no proof printed"))
    pres = [x for x in vlib.pmap(ipgn, list(range(len(sgl)))) if x]
    pok = [x for x in pres if len(x) == 2]
    for x in pres:
        if len(x) == 4:
            rep.violation("filter-crash", f"texelutil proofgame -ipgn dies (exit {x[2]}) on game {sgl[x[0]][:200]}: {x[3]}")
    pathinfo = {"positions": 0, "legal": 0, "unknown": 0, "illegal": 0}
    if pok:
        gp, op_, tp = os.path.join(wd, "sg.sel.txt"), os.path.join(wd, "so.sel.txt"), os.path.join(wd, "spg.ndjson")
        open(gp, "w").write("\n".join(sgl[k] for k, _ in pok) + "\n")
        open(op_, "w").write("\n".join(ln for _, ln in pok) + "\n")
        pk = vlib.sh([hp, "convert", gp, op_, tp], timeout=600)
        if pk.returncode != 0:
            raise vlib.ToolFailure("h_proof convert (ipgn): " + pk.stderr[-300:])
        pathinfo = json.loads(pk.stdout.strip().split("\n")[-1])
        kfiles.append(tp)
    rep.cov.update({"initial_path_games": len(pok), "initial_path_proofs": pathinfo["legal"]})
    # bounds on a larger set of games
    g2, f2 = os.path.join(wd, "games2.txt"), os.path.join(wd, "fens2.txt")
    vlib.sh([hp, "games", str(seed + 5000), str(sz["bound_games"]), g2, f2], timeout=900)
    # the bound needs no kernel search, so half of the bound games may trade down to 8 men (promotions, long pawn paths)
    g3, f3 = os.path.join(wd, "games3.txt"), os.path.join(wd, "fens3.txt")
    vlib.sh([hp, "games", str(seed + 6000), str(sz["bound_games"]), g3, f3, "8"], timeout=900)
    # games built around one promotion (every piece type, both colours, runner set-ups incl. the fianchetto corner)
    g5, f5 = os.path.join(wd, "games5.txt"), os.path.join(wd, "fens5.txt")
    pp = vlib.sh([hp, "promogames", str(seed + 7000), str(sz["bound_games"]), g5, f5], timeout=900)
    if pp.returncode != 0:
        raise vlib.ToolFailure("h_proof promogames: " + pp.stderr[-300:])
    rep.cov["promotion_games"] = json.loads(pp.stdout.strip().split("\n")[-1])
    # many more games for the deadlock rules only (a king without a free square that moves a little later, no capture in between)
    g4, f4 = os.path.join(wd, "games4.txt"), os.path.join(wd, "fens4.txt")
    kpjobs = []
    for k in range(12):
        kpjobs.append((k, os.path.join(wd, f"g4.{k}.txt"), os.path.join(wd, f"f4.{k}.txt")))

    def kp(j):
        k, gp, fp = j
        vlib.sh([hp, "games", str(seed + 8000 + k), str(sz["kingpair_games"] // 12), gp, fp, "26"], timeout=900)
        out = os.path.join(wd, f"kp.{k}.ndjson")
        pb = vlib.sh([hp, "bounds", str(seed + 100 + k), gp, out, str(sz["per"]), "kingpairs"], timeout=3000)
        return out, (json.loads(pb.stdout.strip().split("\n")[-1]) if pb.returncode == 0 else {"error": pb.stderr[-300:]})
    kp_res = vlib.pmap(kp, kpjobs)
    # split the games over several processes
    glines = open(g2).read().strip().split("\n") + open(g3).read().strip().split("\n") + open(g5).read().strip().split("\n")
    nproc = 12
    files = [tr] + kfiles
    jobs = []
    for k in range(nproc):
        part = os.path.join(wd, f"g2.{k}.txt")
        open(part, "w").write("\n".join(glines[k::nproc]) + "\n")
        jobs.append((k, part))

    def bnd(j):
        k, part = j
        out = os.path.join(wd, f"bd.{k}.ndjson")
        pb = vlib.sh([hp, "bounds", str(seed + k), part, out, str(sz["per"])], timeout=3000)
        return out, (json.loads(pb.stdout.strip().split("\n")[-1]) if pb.returncode == 0 else {"error": pb.stderr[-300:]})
    nb = 0
    for out, inf in kp_res + vlib.pmap(bnd, jobs):
        if "error" in inf:
            rep.violation("bounds-crash", "h_proof bounds failed: " + inf["error"])
            continue
        files.append(out)
        nb += inf["bounds"]
    vlib.linear_check(rep, SPEC, CFG, DIAG, files, wd)
    rep.cov.update({"final_positions_classified": info["positions"], "verdict_legal_with_proof": info["legal"], "verdict_unknown": info["unknown"],
                    "verdict_illegal": info["illegal"], "distance_bounds_checked": nb, "first_stage_positions": kinfo["positions"], "first_stage_legal": kinfo["legal"],
                    "first_stage_unknown": kinfo["unknown"], "first_stage_illegal": kinfo["illegal"], "filter_iterations_completed": len(complete)})
    rep.cov["evaluations"] = info["positions"] + kinfo["positions"] + nb
    rep.cov["distinct_nontrivial"] = info["positions"] + kinfo["positions"] + nb
    rep.cov["rule"] = ("final positions of seeded random legal games (1..150 plies, captures only while more than 26 men remain, castling preferred now and then); "
                       "bounds: prefix positions of further games against their own continuation up to the final position or up to a later prefix position; each classified position / bound is a distinct obligation")
    try:
        rep.sample(json.loads(open(tr).read().split("\n")[1])["fen"])
    except Exception:
        rep.sample("n/a")
    rep.assumptions += ["reachability ground truth = the generating game, re-validated by TLC against Chess.tla",
                        "the proof-kernel replay of DESIGN.md (iv) is not implemented; the kernel stages are covered only through the filter's final verdicts",
                        "SAN proof games are converted to coordinates with the repository's own SAN parser; legality and the end position are judged by TLC"]
    return rep.finish()


def replay(path):
    return vlib.replay_linear(PID, SPEC, DIAG, path)
