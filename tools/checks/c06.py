"""C06 - time limits are honoured (spec/TimeControl.tla, Tr_Time.tla).
TLC model-checks the design (envelope + stop rule => deadline, prompt stop / ponderhit) and validates traces of the hooked engine run
under a virtual clock driven by searched nodes (deterministic, no wall clock): limits handed to the search satisfy
1 <= soft <= hard <= budget, bestmove no later than start + hard + one polling interval, and within one polling interval after stop /
after ponderhit with exhausted limits."""
import json
import os
import random
import time

import ctlrun
import sessions
import uci
import vlib

PID = "C06"
SPEC, CFG, DIAG = "Tr_Time.tla", "Tr_Time.cfg", "Tr_Time_diag.cfg"
SIZES = {"quick": dict(n=260), "thorough": dict(n=9000)}
NODES_PER_MS = 100
ROOTS_MANY = ["startpos", "fen r1bq1rk1/pp2bppp/2n1pn2/2pp4/3P1B2/2PBPN2/PP1N1PPP/R2QK2R w KQ - 0 8", "fen 8/2p5/3p4/KP5r/1R3p1k/8/4P1P1/8 w - - 0 1",
              "fen r3k2r/p1ppqpb1/bn2pnp1/3PN3/1p2P3/2N2Q1p/PPPBBPPP/R3K2R b KQkq - 0 1", "fen 6k1/5ppp/8/8/8/8/5PPP/4R1K1 b - - 0 1"]
# pawnless roots of at most four men: the search starts by generating a tablebase inside the hash table (1-2 s of real time, no nodes);
# the virtual clock advances 5 ms per progress report of the generator (sched/vsched.cpp)
ROOTS_TB = ["fen 8/8/8/3k4/8/3K4/4Q2r/8 w - - 0 1", "fen 8/8/8/3k4/8/2NK4/4R3/8 b - - 0 1", "fen 8/8/2b5/3k4/8/3K4/4Q3/8 w - - 0 1",
            "fen 8/8/8/3k4/8/1B1K4/4N3/8 w - - 0 1", "fen 8/8/8/3k4/8/3K4/4R3/8 w - - 0 1"]
ROOTS_ONE = ["fen 7k/5Q2/6K1/8/8/8/8/8 b - - 0 1", "fen k7/2Q5/8/8/8/8/8/7K b - - 0 1", "fen 7k/8/8/8/8/8/5PPr/6K1 w - - 0 1"]


def log_int(rnd, lo, hi):
    import math
    return int(round(math.exp(rnd.uniform(math.log(lo), math.log(hi)))))


def gen(rnd):
    one = rnd.random() < 0.2
    root = rnd.choice(ROOTS_ONE if one else ROOTS_MANY)
    wtm = (" w " in root) or root == "startpos"
    buffer = rnd.choice([1, 10, 100, 1000, 1000, 5000, 10000, log_int(rnd, 1, 10000)])
    threads = rnd.choice([1, 1, 2, 3, 4])
    ponder_opt = rnd.random() < 0.3
    # MaxNPS clause: only values above the virtual clock's own rate (NODES_PER_MS * 1000 nps) are usable - below it the engine sleeps in
    # real time while the node-driven clock stands still.  The polling interval must stay capped at 1000 nodes whatever the setting.
    maxnps = rnd.choice([0, 0, 0, 150000, 1000000, 10000000, 200000000])
    limit_strength = rnd.random() < 0.1          # UCI_LimitStrength with a high Elo implies a large MaxNPS as well
    g = {"root": root, "one": one, "buffer": buffer, "threads": threads, "ponder_opt": ponder_opt, "maxnps": maxnps, "limit_strength": limit_strength}
    if rnd.random() < 0.35:
        mt = rnd.choice([1, 2, 10, log_int(rnd, 1, 100000)])
        g.update(kind="movetime", go=f"movetime {mt}", movetime=mt, time=0)
    else:
        t = rnd.choice([1, 2, 9, 10, log_int(rnd, 1, 10**7), log_int(rnd, 1, 3000)])
        o = rnd.choice([1, log_int(rnd, 1, 10**7)])
        inc = rnd.choice([0, 0, log_int(rnd, 1, 100000)])
        oinc = rnd.choice([0, log_int(rnd, 1, 100000)])
        wt, bt, wi, bi = (t, o, inc, oinc) if wtm else (o, t, oinc, inc)
        go = f"wtime {wt} btime {bt} winc {wi} binc {bi}"
        if rnd.random() < 0.5:
            go += f" movestogo {rnd.choice([0, 1, 2, 5, 40, 100])}"
        g.update(kind="clock", go=go, movetime=0, time=t)
    g["mode"] = rnd.choice(["plain", "plain", "plain", "stop", "ponderhit", "ponderstop"])
    g["tb"] = False
    if rnd.random() < 0.15:
        # soft limit close to the hard limit (few moves to go, or both clamped to clock - buffer) with a budget of a few hundred
        # thousand nodes: the search is deep in an iteration when the limits pass, and every scaling of the soft limit shows
        t = rnd.randint(500, 8000)
        inc = rnd.choice([0, 0, t, 2 * t])
        wt, bt, wi, bi = (t, t, inc, inc)
        mtg = rnd.choice([1, 1, 2, 3]) if inc == 0 else 0
        go = f"wtime {wt} btime {bt} winc {wi} binc {bi}" + (f" movestogo {mtg}" if mtg else "")
        g.update(root=rnd.choice(ROOTS_MANY), one=False, buffer=rnd.choice([1, 10, 50]), maxnps=0, limit_strength=False,
                 kind="clock", go=go, movetime=0, time=t, mode="plain")
    if rnd.random() < 0.12:
        # table generation only starts with a hard limit of 3 s or more (or none: pondering); the command that ends the search arrives
        # while the table is being generated
        root = rnd.choice(ROOTS_TB)
        wtm = " w " in root
        g.update(root=root, one=False, tb=True, threads=rnd.choice([1, 1, 2]), maxnps=0, limit_strength=False)
        if rnd.random() < 0.3:
            mt = rnd.choice([4000, 20000, 100000])
            g.update(kind="movetime", go=f"movetime {mt}", movetime=mt, time=0)
        else:
            t = rnd.choice([60000, 600000, 10**7])
            wt, bt = (t, 1000) if wtm else (1000, t)
            g.update(kind="clock", go=f"wtime {wt} btime {bt} winc 0 binc 0", movetime=0, time=t)
        g["mode"] = rnd.choice(["stop", "stop", "ponderstop", "ponderhit", "plain"])
    return g


def run_one(bdir, g, net, idx, wd):
    tp = os.path.join(wd, f"t{idx}.ndjson")
    env = dict(os.environ, VERIF_TRACE=tp, VERIF_CLOCK=str(NODES_PER_MS), VERIF_WATCHDOG="120")
    eng = uci.Engine(os.path.join(bdir, "texel-" + net), env=env)
    try:
        eng.send(f"setoption name BufferTime value {g['buffer']}")
        eng.send(f"setoption name Threads value {g['threads']}")
        eng.send(f"setoption name Ponder value {'true' if g['ponder_opt'] else 'false'}")
        if g["maxnps"]:
            eng.send(f"setoption name MaxNPS value {g['maxnps']}")
        if g["limit_strength"]:
            eng.send("setoption name UCI_LimitStrength value true")
            eng.send("setoption name UCI_Elo value 2600")
        eng.isready()
        eng.send(f"position {g['root']}")
        ponder = g["mode"] in ("ponderhit", "ponderstop")
        eng.send("go " + ("ponder " if ponder else "") + g["go"])
        if g["mode"] == "stop" or g["mode"] == "ponderstop":
            time.sleep(random.Random(idx).choice([0.05, 0.2, 0.4, 0.8] if g.get("tb") else [0.0, 0.01, 0.05]))
            eng.send("stop")
        elif g["mode"] == "ponderhit":
            time.sleep(random.Random(idx).choice([0.05, 0.2, 0.4, 0.8] if g.get("tb") else [0.0, 0.01, 0.05, 0.2]))
            eng.send("ponderhit")
        # searches with a huge budget are cut short by a stop after a while (that stop is part of the trace and is honoured by the spec)
        lines, ok = eng.read_until(lambda l: l.startswith("bestmove"), 2.5)
        if not ok:
            eng.send("stop")
            lines2, ok = eng.read_until(lambda l: l.startswith("bestmove"), 300)
        rc = eng.quit()
        return tp, ok, rc
    finally:
        eng.kill()


def to_events(g, tp):
    ev = []
    slack = 2 * 1000 // NODES_PER_MS + 5      # two polling intervals of the main search thread (the virtual clock follows that thread only)
    for line in open(tp):
        try:
            d = json.loads(line)
        except Exception:
            continue
        e = d["e"]
        if e == "Cmd":
            tok = d.get("txt", "").split()
            if tok and tok[0] == "go":
                ev.append({"e": "TGo", "start": d["a"], "movetime": g["movetime"], "time": g["time"], "buffer": g["buffer"],
                           "ponder": "ponder" in tok, "slack": slack, "txt": f"{g['root']} | {d['txt']} | BufferTime {g['buffer']} Threads {g['threads']} Ponder {g['ponder_opt']} MaxNPS {g['maxnps']} LimitStrength {g['limit_strength']}"})
        # 'stop' and 'ponderhit' count from the moment the engine has stored them in the search's limits (events StopSet / LimitsPH,
        # emitted right after the store): the time between reading the command and that store belongs to the protocol thread and
        # to the OS scheduler, not to the polling of the search (seen once under load 50: 29 virtual ms from the command, slack 25)
        elif e == "StopSet":
            ev.append({"e": "TStop", "vt": d["vt"]})
        elif e == "Limits":
            ev.append({"e": "TLimits", "min": d["a"], "max": d["b"], "afterHit": False, "oneMove": g["one"]})
        elif e == "LimitsPH":
            ev.append({"e": "TLimits", "min": d["a"], "max": d["b"], "afterHit": True, "oneMove": g["one"]})
            ev.append({"e": "TPonderHit", "vt": d["vt"]})
        elif e == "Best":
            ev.append({"e": "TBest", "vt": d["vt"]})
    return ev


def run(tier, seed):
    rep = vlib.Report(PID, tier, seed, "model_checking")
    bdir, _ = vlib.build("plain", ["texel-" + n for n in sessions.NETS])
    wd = vlib.rundir(PID)
    r = vlib.tlc("TimeControl.tla", "TimeControl.cfg", os.path.join(wd, "mc"), workers=4, timeout=900)
    if r.violated:
        rep.violation("design:TimeControl:" + r.violated, f"TimeControl.tla violates {r.violated}", files=[os.path.join(wd, "mc", "tlc.out")])
    elif not r.ok:
        raise vlib.ToolFailure("TimeControl.tla: " + r.out[-1000:])
    rep.add("states", r.distinct)
    rep.add("transitions", r.generated)
    rnd = random.Random(seed * 4099 + 6)
    jobs = [(i, gen(rnd), rnd.choice(sessions.NETS)) for i in range(SIZES[tier]["n"])]
    results = vlib.pmap(lambda j: run_one(bdir, j[1], j[2], j[0], wd), jobs, workers=8)
    nfiles = 8
    files = [os.path.join(wd, f"tm.{k}.ndjson") for k in range(nfiles)]
    fh = [open(f, "w") for f in files]
    modes = {}
    for (i, g, net), (tp, ok, rc) in zip(jobs, results):
        if not ok or rc != 0:
            rep.violation(f"run:{'no-bestmove' if not ok else rc}", f"timed search did not finish properly (ok={ok}, rc={rc}): {json.dumps(g)}", files=[tp])
        o = fh[i % nfiles]
        o.write(json.dumps({"e": "Reset"}) + "\n")
        if os.path.exists(tp):
            for e in to_events(g, tp):
                o.write(json.dumps(e) + "\n")
            os.remove(tp)
        mk = g["mode"] + ("/one-move" if g["one"] else "") + ("/tablebase-root" if g.get("tb") else "")
        modes[mk] = modes.get(mk, 0) + 1
        if i < 3:
            rep.sample({"go": g["go"], "root": g["root"], "BufferTime": g["buffer"], "Threads": g["threads"], "mode": g["mode"]})
    for f in fh:
        f.close()
    vlib.linear_check(rep, SPEC, CFG, DIAG, files, wd, context_marker='{"e": "Reset"', meta_line=False)
    rep.cov.update({"timed_searches": len(jobs), "modes": modes, "nodes_per_virtual_ms": NODES_PER_MS})
    rep.cov["evaluations"] = len(jobs)
    rep.cov["distinct_nontrivial"] = len({json.dumps(j[1], sort_keys=True) for j in jobs})
    rep.cov["rule"] = ("log-uniform wtime/btime 1..1e7, inc 0..1e5, movestogo 0..100, movetime 1..1e5, BufferTime 1..10000, Ponder option, Threads 1..4, "
                       "roots with one and many legal moves, modes plain/stop/ponderhit/ponder+stop; virtual clock = 100 nodes per ms; distinct parameter vectors")
    rep.assumptions += ["MaxNPS is not exercised: its sleep is real time and does not advance the node-driven clock",
                        "while an on-demand tablebase is generated (no nodes searched) the virtual clock advances 5 ms per progress report of the generator",
                        "the virtual clock advances with the nodes of the main search thread only (the thread that polls the limits), so that the verdict does not depend on how the OS schedules helper threads; slack = 2 polling intervals (1000 nodes each) + 5 ms of virtual time"]
    return rep.finish()


def replay(path):
    return vlib.replay_linear(PID, SPEC, DIAG, path)
