"""C05 - UCI session contract: one bestmove per go, readyok, never crashes.
(a) hooked engine: seeded sessions over the whole command alphabet (commands before initialisation, during search, repeated, unknown words,
    blank lines, out-of-range options, EOF) under schedule perturbation; the hook trace is validated by TLC against Tr_Control.tla
    (session contract: readyok before the next command, no search output outside a search / after its bestmove, options applied only
    between searches, every go answered exactly once, plus the C10 monitor).
(b) sanitizer build, black box: the same kind of sessions; stdin/stdout/exit status validated by TLC against Tr_Uci.tla (exit 0, counts,
    every output line well-formed, no sanitizer report).
(c) a depth-limited single-thread search must give the identical result with and without setoption commands issued while it runs, and
    the new values must be in effect for the next search."""
import json
import os
import random
import re

import ctlrun
import sessions
import uci
import vlib

PID = "C05"
SIZES = {"quick": dict(hooked=200, san=70, undist=24, files=8, limited=40), "thorough": dict(hooked=8000, san=2500, undist=400, files=32, limited=1500)}
MOVE = r"(?:[a-h][1-8][a-h][1-8][qrbn]?|0000)"
GRAMMAR = [
    ("id", re.compile(r"^id (name|author) .+$")),
    ("option", re.compile(r"^option name .+ type (check|spin|combo|button|string)( .*)?$")),
    ("uciok", re.compile(r"^uciok$")), ("readyok", re.compile(r"^readyok$")),
    ("bestmove", re.compile(rf"^bestmove {MOVE}( ponder {MOVE})?$")),
    ("info", re.compile(r"^info depth \d+$")),
    ("info", re.compile(rf"^info currmove {MOVE} currmovenumber \d+$")),
    ("info", re.compile(rf"^info depth \d+ score (cp|mate) -?\d+( upperbound| lowerbound)? time \d+ nodes \d+ nps \d+( tbhits \d+)?( multipv \d+)? pv( {MOVE})*$")),
    ("info", re.compile(r"^info nodes \d+ nps \d+ hashfull \d+( tbhits \d+)? time \d+$")),
    ("info", re.compile(r"^info string .*$")),
]


def classify(line):
    for cls, rx in GRAMMAR:
        if rx.match(line):
            return cls
    return "malformed"


def final_result(lines):
    best = next((l for l in reversed(lines) if l.startswith("bestmove")), "")
    pv = next((l for l in reversed(lines) if l.startswith("info depth") and " pv " in l), "")
    nodes = next((l for l in reversed(lines) if l.startswith("info nodes")), "")
    strip = lambda x: re.sub(r" (time|nps) \d+", "", x)
    return {"best": best, "pv": strip(pv), "nodes": strip(nodes)}


def run(tier, seed):
    rep = vlib.Report(PID, tier, seed, "model_checking")
    bdir, _ = vlib.build("plain", ["texel-" + n for n in sessions.NETS])
    sdir, _ = vlib.build("san", ["texel-rand1"])
    wd = vlib.rundir(PID)
    sz = SIZES[tier]
    rnd = random.Random(seed * 31337 + 5)
    # ---------------- (a) hooked runs
    jobs = [(i,) + ctlrun.gen_session(rnd) + (rnd.randint(1, 10**9), rnd.choice(sessions.NETS)) for i in range(sz["hooked"])]
    # always include the historic crash witnesses
    jobs[0] = (0, [("ponderhit", 0)], False, 1, "rand1")
    jobs[1] = (1, [("ponderhit", 0), ("stop", 0), ("ucinewgame", 0)], True, 2, "rand1")
    bad = []

    def one(j):
        i, script, eof, sseed, net = j
        tp = os.path.join(wd, f"run{i}.ndjson")
        if len(bad) >= 4:
            return "skipped", [], "", tp
        rc, out, err = ctlrun.run_script(os.path.join(bdir, "texel-" + net), script, sseed, tp, watchdog=30, eof=eof)
        if rc != 0:
            bad.append(i)
        return rc, out, err, tp
    results = vlib.pmap(one, jobs, workers=10)
    files = [os.path.join(wd, f"ctl.{k}.ndjson") for k in range(sz["files"])]
    fh = [open(f, "w") for f in files]
    ncmd = 0
    for (i, script, eof, sseed, net), (rc, out, err, tp) in zip(jobs, results):
        if rc == "skipped":
            continue
        ncmd += len(script)
        desc = json.dumps({"script": [c for c, _ in script], "eof": eof, "sched_seed": sseed, "net": net})
        if rc != 0:
            rep.violation(f"hooked:{'hang' if rc in ('hang', 97) else 'exit-' + str(rc)}:{' | '.join(c for c, _ in script)[:80]}",
                          f"hooked engine session ended with {rc}: {desc[:700]}", files=[tp], text=desc + "\n" + err)
        o = fh[i % len(fh)]
        o.write(json.dumps({"e": "Reset", "n": 0, "t": 0, "o": -1, "a": i, "b": 0}) + "\n")
        if os.path.exists(tp):
            o.write(ctlrun.annotate(open(tp).read()))
            os.remove(tp)
        if rc == 0:
            o.write(json.dumps({"e": "End", "n": 0, "t": 0, "o": -1, "a": i, "b": 0}) + "\n")
        if i in (2, 3):
            rep.sample({"script": [c for c, _ in script][:25], "eof": eof, "sched_seed": sseed})
    for f in fh:
        f.close()
    before = len(rep.violations)
    vlib.linear_check(rep, "Tr_Control.tla", "Tr_Control.cfg", "Tr_Control_diag.cfg", files, wd, context_marker='{"e": "Reset"', meta_line=False,
                      keyfn=lambda line, names: "monitor:" + ";".join(names))
    for v in rep.violations[before:]:
        if not [n for n in v[0].split(":", 1)[1].split(";") if n]:
            raise vlib.ToolFailure("trace spec has no enabled step for a recorded event (spec/hook mismatch): " + v[1][:300])
    drift = [v for v in rep.violations[before:] if all(n.startswith("Design") for n in v[0].split(":", 1)[1].split(";") if n)]
    rep.violations[before:] = [v for v in rep.violations[before:] if v not in drift]
    if drift:
        print(f"MODEL-DRIFT {PID}: {len(drift)} trace(s) deviate from the design model only: {drift[0][1][:200]}")
        rep.cov["model_drift"] = [d[1][:200] for d in drift[:5]]
    # ---------------- (b) sanitizer black-box runs
    sjobs = [(i,) + ctlrun.gen_session(rnd, 40) for i in range(sz["san"])]
    sjobs[0] = (0, [("ponderhit", 0)], False)
    env = {"UBSAN_OPTIONS": "halt_on_error=1:print_stacktrace=1", "ASAN_OPTIONS": "detect_leaks=0:abort_on_error=0"}

    def sone(j):
        i, script, eof = j
        script = [(c, d) for c, d in script]
        rc, out, err = ctlrun.run_script(os.path.join(sdir, "texel-rand1"), script, None, None, watchdog=120, eof=eof, extra_env=env, final_wait=0.2)
        return rc, out, err
    sres = vlib.pmap(sone, sjobs, workers=12)
    ufile = os.path.join(wd, "uci.0.ndjson")
    nlines = 0
    with open(ufile, "w") as f:
        f.write(json.dumps({"e": "Meta", "check": PID}) + "\n")
        for (i, script, eof), (rc, out, err) in zip(sjobs, sres):
            f.write(json.dumps({"e": "Reset", "id": i}) + "\n")
            for c, _ in script:
                tok = c.split()
                f.write(json.dumps({"e": "In", "cmd0": tok[0] if tok else "", "line": c}) + "\n")
            for l in out:
                f.write(json.dumps({"e": "Out", "cls": classify(l), "line": l}) + "\n")
                nlines += 1
            clean = not re.search(r"runtime error|AddressSanitizer|ERROR: |terminate called", err or "")
            f.write(json.dumps({"e": "Exit", "rc": rc if isinstance(rc, int) else 999, "stderrClean": clean,
                                "script": " | ".join(c for c, _ in script)[:900] + (" <EOF>" if eof else " | quit"), "stderr": (err or "")[-600:]}) + "\n")
    # ---------------- (c) option changes during a search do not disturb it
    und = []
    for k in range(sz["undist"]):
        fen = rnd.choice(ctlrun.FENS)
        depth = rnd.randint(8, 10)
        net = rnd.choice(sessions.NETS)
        opts = rnd.sample([("MultiPV", "3"), ("Hash", "99999999"), ("UseNullMove", "false"), ("Hash", "2"), ("Threads", "0"), ("Strength", "300"),
                           ("Contempt", "2001"), ("MultiPV", "0"), ("BufferTime", "5")], rnd.randint(1, 3))
        und.append((fen, depth, net, opts))

    def uone(u):
        fen, depth, net, opts = u
        binp = os.path.join(bdir, "texel-" + net)

        def drive(with_opts):
            eng = uci.Engine(binp)
            try:
                eng.send(f"position {fen}")
                eng.send(f"go depth {depth}")
                if with_opts:
                    for n, v in opts:
                        eng.send(f"setoption name {n} value {v}")
                first, ok1 = eng.read_until(lambda l: l.startswith("bestmove"), 120)
                second, ok2 = [], True
                if with_opts:
                    eng.isready()
                    eng.send(f"position {fen}")
                    eng.send("go depth 3")
                    second, ok2 = eng.read_until(lambda l: l.startswith("bestmove"), 120)
                rc = eng.quit()
                return first, second, ok1 and ok2 and rc == 0
            finally:
                eng.kill()
        f1, _, okA = drive(False)
        f2, second, okB = drive(True)
        effect = okA and okB
        last_mpv = [v for n, v in opts if n == "MultiPV"]
        if last_mpv and last_mpv[-1] == "3":
            effect = effect and any(" multipv 2 " in l for l in second)
        return {"e": "Undisturbed", "a": final_result(f1), "b": final_result(f2), "effect": effect,
                "cmds": f"position {fen} | go depth {depth} | " + " | ".join(f"setoption name {n} value {v}" for n, v in opts) + " | (bestmove) | isready | go depth 3"}
    ures = vlib.pmap(uone, und, workers=12)
    # ---------------- (d) a limited 'go' answers by itself (no 'stop'), whatever the order of its sub-commands, and inside its searchmoves set
    LPOS = {"startpos": ["e2e4", "d2d4", "g1f3", "b1c3", "a2a3"], "startpos moves e2e4": ["e7e5", "c7c5", "g8f6", "b8c6"],
            "startpos moves e2e4 e7e5": ["g1f3", "f1c4", "d2d4", "b1c3"], "fen 4k3/8/8/8/8/8/4P3/4K3 w - - 0 1": ["e2e4", "e2e3", "e1d2"]}
    lim = []
    for k in range(sz["limited"]):
        cmds = []
        for _ in range(rnd.randint(2, 5)):
            pos = rnd.choice(sorted(LPOS))
            sm = rnd.sample(LPOS[pos], rnd.randint(1, 2))
            parts = rnd.choice([["depth %d" % rnd.randint(1, 4)], ["nodes %d" % rnd.randint(50, 3000)], ["movetime %d" % rnd.choice([20, 100, 200])],
                                ["wtime 500", "btime 500"], ["wtime 300", "btime 300", "winc 10", "binc 10", "movestogo 5"],
                                ["depth 3", "nodes 100000"], ["mate 1", "depth 3"]])
            parts = list(parts)
            rnd.shuffle(parts)
            parts.insert(rnd.randint(0, len(parts)), "searchmoves " + " ".join(sm))
            cmds.append((pos, "go " + " ".join(parts), sm))
        lim.append((rnd.choice(sessions.NETS), cmds))

    def lone(u):
        net, cmds = u
        eng = uci.Engine(os.path.join(bdir, "texel-" + net))
        evs = []
        try:
            for pos, go, sm in cmds:
                eng.send("position " + pos)
                eng.send(go)
                lines, ok = eng.read_until(lambda l: l.startswith("bestmove"), 90)
                best = lines[-1].split()[1] if ok and lines else ""
                evs.append({"e": "Limited", "cmds": f"position {pos} | {go}", "answered": bool(ok), "inSet": (best in sm) if ok else True, "best": best})
                if not ok:
                    break
            eng.quit()
        finally:
            eng.kill()
        return evs
    lres = vlib.pmap(lone, lim, workers=8)
    with open(ufile, "a") as f:
        for e in ures:
            f.write(json.dumps(e) + "\n")
        for evs in lres:
            for e in evs:
                f.write(json.dumps(e) + "\n")
    vlib.linear_check(rep, "Tr_Uci.tla", "Tr_Uci.cfg", "Tr_Uci_diag.cfg", [ufile], wd, context_marker='{"e": "Reset"',
                      keyfn=lambda line, names: "uci:" + ";".join(names) + ":" + (json.loads(line).get("script", json.loads(line).get("line", ""))[:100] if line.startswith("{") else ""))
    rep.cov.update({"hooked_sessions": len(jobs), "hooked_commands": ncmd, "sanitizer_sessions": len(sjobs), "output_lines_classified": nlines,
                    "undisturbed_pairs": len(und), "limited_go_commands_in_every_subcommand_order": sum(len(e) for e in lres)})
    rep.cov["evaluations"] = len(jobs) + len(sjobs) + len(und)
    rep.cov["distinct_nontrivial"] = len({json.dumps(j[1]) for j in jobs}) + len({json.dumps(j[1]) for j in sjobs}) + len(und)
    rep.cov["rule"] = ("seeded UCI sessions of 3..60 commands over {uci, isready, setoption (all declared options, valid/out-of-range/unknown), ucinewgame, "
                       "position, go (all limit kinds, ponder, searchmoves, malformed), stop, ponderhit, unknown words, blank lines}, ended by quit or EOF; "
                       "distinct scripts counted; every one is non-trivial")
    rep.assumptions += ["the relative order of input and output is judged on hook traces (exact), not on pipe timing",
                        "crash clause: exit status and clang ASan+UBSan reports of sessions the specification validates"]
    return rep.finish()


def replay(path):
    for f in os.listdir(path):
        if f.endswith(".ndjson"):
            spec = "Tr_Uci" if f.startswith("reject_uci") else "Tr_Control"
            r = vlib.tlc(spec + ".tla", spec + "_diag.cfg", os.path.join(vlib.RUN, PID, "replay"), env={"TRACE": os.path.join(path, f)})
            print("\n".join(r.prints))
    return 0
