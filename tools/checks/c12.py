"""C12 - on-demand endgame tables hold the exact distance to mate (spec/FewMen.tla, Tr_TB.tla).
Rows of the real TBGenerator (both storage back ends) with successor values from real probes are checked by TLC
against the rule book and the Bellman equation; scope rows must be 'not found'; aborts are injected at phase
boundaries (TEXEL_VERIF hook) followed by hash traffic and probes, which must not be answered."""
import json
import os
import random

import vlib

PID = "C12"
SPEC, CFG, DIAG = "Tr_TB.tla", "Tr_TB.cfg", "Tr_TB_diag.cfg"
THREE = ["KQK", "KRK", "KBK", "KNK", "KKQ", "KKR", "KKB", "KKN"]
W2 = ["KQQK", "KQRK", "KQBK", "KQNK", "KRRK", "KRBK", "KRNK", "KBBK", "KBNK", "KNNK"]
FOUR = W2 + ["KK" + c[1:3] for c in W2] + [f"K{a}K{b}" for a in "QRBN" for b in "QRBN"]


def split_file(src, n, wd, tag):
    lines = open(src).read().split("\n")
    meta, rows = lines[0], [x for x in lines[1:] if x]
    outs = []
    per = (len(rows) + n - 1) // n
    for k in range(n):
        part = rows[k * per:(k + 1) * per]
        if not part:
            continue
        f = os.path.join(wd, f"{tag}.{k}.ndjson")
        with open(f, "w") as fh:
            fh.write(meta + "\n" + "\n".join(part) + "\n")
        outs.append(f)
    os.remove(src)
    return outs


def run(tier, seed):
    rep = vlib.Report(PID, tier, seed, "model_checking")
    bdir, _ = vlib.build("plain", ["h_tb"])
    wd = vlib.rundir(PID)
    rnd = random.Random(seed)
    h = os.path.join(bdir, "h_tb")
    jobs = []   # (tag, argv, split)
    if tier == "quick":
        ex = [THREE[seed % len(THREE)]]
        samp3 = [(c, "tt", 2500) for c in THREE]
        four = rnd.sample(FOUR, 6)
        samp4 = [(c, rnd.choice(["vec", "tt"]), 3000) for c in four]
        aborts = ["KRK", rnd.choice(["KQKR", "KBNK", "KRKN"])]
        scopes = [("KQKR", 400), (rnd.choice(THREE), 300)]
    else:
        ex = list(THREE)
        samp3 = [(c, "tt", 20000) for c in THREE]
        samp4 = [(c, be, 30000) for c in FOUR for be in ("vec", "tt")]
        aborts = ["KRK", "KQK", "KQKR", "KBNK", "KRKN", "KKQR", "KNKB"]
        scopes = [(c, 1500) for c in ["KQKR", "KRK", "KBNK", "KKQ", "KNKN"]]
    for c in ex:
        jobs.append((f"all_{c}", ["rows", c, "vec", "all", str(seed)], 16))
    for c, be, n in samp3 + samp4:
        jobs.append((f"s_{c}_{be}", ["rows", c, be, str(n), str(seed)], 2 if n > 4000 else 1))
    for c, n in scopes:
        jobs.append((f"scope_{c}", ["scope", c, str(seed), str(n)], 1))
    for c in aborts:
        jobs.append((f"abort_{c}", ["abort", c, str(seed)], 1))

    def gen(job):
        tag, argv, split = job
        out = os.path.join(wd, tag + ".src")
        p = vlib.sh([h] + argv + [out], timeout=3000)
        if p.returncode != 0:
            return tag, None, p.stderr[-500:], None
        return tag, out, json.loads(p.stdout.strip().split("\n")[-1]), split
    gens = vlib.pmap(gen, jobs, workers=12)
    files = []
    rows = 0
    summary = {}
    for tag, out, info, split in gens:
        if out is None:
            rep.violation(f"harness-crash:{tag}", f"h_tb {tag} failed: {info}")
            continue
        summary[tag] = info
        rows += info.get("rows", 0) + info.get("scope_rows", 0) + info.get("probes", 0)
        files += split_file(out, split, wd, tag)
    vlib.linear_check(rep, SPEC, CFG, DIAG, files, wd, context_marker='{"e":"TbGen"')
    rep.cov["classes_exhaustive_all_raw_placements"] = [c for c in ex]
    rep.cov["classes_sampled"] = sorted({j[1][1] for j in jobs if j[1][0] == "rows" and j[1][3] != "all"})
    rep.cov["abort_classes"] = aborts
    rep.cov["rows_checked"] = rows
    rep.cov["exhaustive"] = False
    rep.cov["evaluations"] = rows
    rep.cov["distinct_nontrivial"] = rows
    rep.cov["rule"] = ("rows = legal raw placements (all 64^k x 2 for the exhaustive class, uniformly sampled otherwise; raw placements cover every "
                       "symmetry image) with value and all successor values probed from the real table; every row is a distinct Bellman obligation")
    for tag in list(summary)[:3]:
        rep.sample({tag: summary[tag]})
    rep.assumptions += ["local Bellman consistency on all rows of a class implies exact DTM (MC_Retro); sampled classes are checked on the sampled rows only",
                        "abort injection uses the TEXEL_VERIF phase hook to arm the real time-limit / stop tests at a chosen phase boundary"]
    return rep.finish()


def replay(path):
    return vlib.replay_linear(PID, SPEC, DIAG, path)
