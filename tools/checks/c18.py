"""C18 - the opening book never yields an illegal move (spec/Book.tla, Tr_Book.tla).
Abstract books (positions x bags of <move, weight>, duplicate keys, zero weights, castling moves) are written as polyglot files with the
repository's own encoder, together with damaged variants (truncated at arbitrary byte lengths, corrupted bytes, unsorted, missing, pure
garbage); probes through Book::getBookMove (and of the built-in book along its lines) are validated by TLC against the rule book:
every result legal or absent; for well-formed books only stored positive-weight moves, each of them seen over 400 probes.
The same probes run in the ASan+UBSan build (crash / memory-error clause)."""
import json
import os

import vlib

PID = "C18"
SPEC, CFG, DIAG = "Tr_Book.tla", "Tr_Book.cfg", "Tr_Book_diag.cfg"
SIZES = {"quick": dict(procs=12, books=10, san_books=6), "thorough": dict(procs=32, books=150, san_books=60)}


def run(tier, seed):
    rep = vlib.Report(PID, tier, seed, "model_checking")
    bdir, _ = vlib.build("plain", ["h_polybook"])
    sdir, _ = vlib.build("san", ["h_polybook"])
    wd = vlib.rundir(PID)
    tmp = os.path.join(wd, "tmp")
    os.makedirs(tmp, exist_ok=True)
    sz = SIZES[tier]
    jobs = [("plain", k) for k in range(sz["procs"])] + [("san", k) for k in range(2)]

    def gen(j):
        var, k = j
        out = os.path.join(wd, f"pb.{var}.{k}.ndjson")
        env = dict(os.environ, UBSAN_OPTIONS="halt_on_error=1:print_stacktrace=1", ASAN_OPTIONS="detect_leaks=0")
        p = vlib.sh([os.path.join(bdir if var == "plain" else sdir, "h_polybook"), str(seed * 100 + k + (50 if var == "san" else 0)),
                     str(sz["books"] if var == "plain" else sz["san_books"]), out, tmp], timeout=3000, env=env)
        if p.returncode != 0 or "runtime error" in p.stderr:
            return out, {"error": f"{var} build: rc={p.returncode} {p.stderr[-600:]}"}
        return out, json.loads(p.stdout.strip().split("\n")[-1])
    res = vlib.pmap(gen, jobs)
    files = []
    probes = nfiles = 0
    for (var, k), (out, info) in zip(jobs, res):
        if "error" in info:
            rep.violation(f"crash:{var}", "book probing crashed / sanitizer report: " + info["error"])
            continue
        files.append(out)
        probes += info["probe_events"]
        nfiles += info["book_files"]
    vlib.linear_check(rep, SPEC, CFG, DIAG, files, wd)
    rep.cov.update({"probe_events": probes, "book_files": nfiles, "probes_per_valid_position": 400})
    rep.cov["evaluations"] = probes
    rep.cov["distinct_nontrivial"] = probes
    rep.cov["rule"] = ("per book: 5..45 positions from short random games, 1..5 stored moves each (castling preferred, every fifth weight zero), six file variants "
                       "(valid/truncated/corrupt/unsorted/missing/garbage), probes of stored and absent positions; built-in book probed along its own lines; "
                       "each probe event is a distinct (file, position) pair")
    rep.sample({"variants": ["valid", "truncated", "corrupt", "unsorted", "missing", "garbage"], "K": 400})
    rep.assumptions += ["polyglot files are produced with the repository's own PolyglotBook::getHashKey/getPGMove/serialize",
                        "a positive-weight move missed in 400 probes has probability < 1e-9 (minimum weight share 0.02)"]
    return rep.finish()


def replay(path):
    return vlib.replay_linear(PID, SPEC, DIAG, path)
