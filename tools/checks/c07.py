"""C07 - static evaluation is a pure, symmetric function of the position (spec/Tr_Eval.tla).
The implementation computes the numbers; TLC decides (with Chess.tla's FlipColour / MirrorX / position identity) which evaluations
must agree: incremental-after-history vs from scratch, cache-polluted vs fresh, evaluations sampled inside real searches (hook) vs
fresh, colour flip, left-right mirror, and SIMD build variants against the generic build."""
import json
import os

import vlib

PID = "C07"
SPEC, CFG, DIAG = "Tr_Eval.tla", "Tr_Eval.cfg", "Tr_Eval_diag.cfg"
NETS = ["rand1", "overflow", "material", "extreme", "rand2"]      # "overflow": 16-bit accumulators wrap around in ordinary positions
SIZES = {"quick": dict(walks=220, searches=24, nets=3, variants=["avx2"], values=200, endgame=(100000, 14)),
         "thorough": dict(walks=4000, searches=300, nets=5, variants=["ssse3", "avx2", "avx512"], values=3000, endgame=(3000000, 150))}


def cpu_has(flag):
    try:
        return flag in open("/proc/cpuinfo").read()
    except Exception:
        return False


def run(tier, seed):
    rep = vlib.Report(PID, tier, seed, "model_checking")
    sz = SIZES[tier]
    nets = NETS[:sz["nets"]]
    bdir, _ = vlib.build("plain", [f"h_eval-{n}" for n in nets])
    wd = vlib.rundir(PID)
    jobs = []
    for n in nets:
        jobs.append((bdir, n, "pairs", sz["walks"]))
        jobs.append((bdir, n, "search", sz["searches"]))
        jobs.append((bdir, n, "endgame", sz["endgame"][0]))

    def gen(j):
        b, n, mode, cnt = j
        out = os.path.join(wd, f"{mode}_{n}.ndjson")
        p = vlib.sh([os.path.join(b, f"h_eval-{n}"), mode, str(seed), str(cnt), out] + ([str(sz["endgame"][1])] if mode == "endgame" else []), timeout=3000)
        if p.returncode != 0:
            return None, f"h_eval-{n} {mode} exited {p.returncode}: {p.stderr[-400:]}"
        return out, json.loads(p.stdout.strip().split("\n")[-1])
    outs = vlib.pmap(gen, jobs, workers=8)
    files = []
    pairs = evals = hooked = screened = cands = 0
    for (b, n, mode, cnt), (out, info) in zip(jobs, outs):
        if out is None:
            rep.violation(f"harness-crash:{n}:{mode}", info)
            continue
        files.append(out)
        pairs += info["pairs"]
        evals += info["evals"]
        hooked += info["hooked_evals"]
        screened += info.get("screened", 0)
        cands += info.get("candidates", 0)
    # SIMD variants against the generic build
    need = {"ssse3": "ssse3", "avx2": "avx2", "avx512": "avx512bw"}
    variants = [v for v in sz["variants"] if cpu_has(need[v])]
    rep.cov["simd_variants_compared"] = ["generic"] + variants
    base = {}
    for n in nets:
        out = os.path.join(wd, f"values_plain_{n}.ndjson")
        p = vlib.sh([os.path.join(bdir, f"h_eval-{n}"), "values", str(seed), str(sz["values"]), out], timeout=3000)
        base[n] = [json.loads(x)["x"] for x in open(out).read().strip().split("\n")[1:]]
        os.remove(out)
    for v in variants:
        vdir, _ = vlib.build(v, [f"h_eval-{n}" for n in nets])
        for n in nets:
            out = os.path.join(wd, f"values_{v}_{n}.ndjson")
            p = vlib.sh([os.path.join(vdir, f"h_eval-{n}"), "values", str(seed), str(sz["values"]), out], timeout=3000)
            if p.returncode != 0:
                rep.violation(f"harness-crash:{v}:{n}", f"h_eval-{n} ({v}) exited {p.returncode}: {p.stderr[-300:]}")
                continue
            vals = [json.loads(x)["x"] for x in open(out).read().strip().split("\n")[1:]]
            os.remove(out)
            f = os.path.join(wd, f"simd_{v}_{n}.ndjson")
            with open(f, "w") as fh:
                fh.write(json.dumps({"e": "Meta", "check": PID, "variant": v, "net": n}) + "\n")
                for a, b in zip(base[n], vals):
                    a2 = dict(a, how="variant:generic")
                    b2 = dict(b, how="variant:" + v)
                    fh.write(json.dumps({"e": "EvalPair", "rel": "same", "a": a2, "b": b2}) + "\n")
                    pairs += 1
            if len(vals) != len(base[n]):
                rep.violation(f"variant-diverged:{v}:{n}", f"variant {v} produced {len(vals)} evaluations, generic {len(base[n])} (net {n})")
            files.append(f)
    vlib.linear_check(rep, SPEC, CFG, DIAG, files, wd)
    rep.cov.update({"pairs_checked": pairs, "evaluations_recorded": evals, "evaluations_seen_by_search_hook": hooked, "nets": nets,
                    "endgame_placements_screened_for_rule_asymmetry": screened, "endgame_screening_candidates_recorded": cands})
    rep.cov["evaluations"] = pairs
    rep.cov["distinct_nontrivial"] = pairs
    rep.cov["rule"] = ("pairs of evaluations that the specification relates (same position+contempt / colour flip / mirror); each pair comes from a "
                       "distinct step of a seeded history or a distinct sampled in-search evaluation; every pair is non-trivial")
    rep.sample({"pair_kinds": ["incremental-after-history vs fresh", "copy/assign vs fresh", "cache-polluted-other-contempt vs fresh",
                               "in-search(hook) vs fresh", "flip", "mirror", "variant:X vs variant:generic"]})
    rep.assumptions += ["synthetic networks (random small / material-like / extreme weights within int16 accumulator range) stand in for the real weights",
                        "SIMD variants are compared on this CPU only for the instruction sets it supports"]
    return rep.finish()


def replay(path):
    return vlib.replay_linear(PID, SPEC, DIAG, path)
