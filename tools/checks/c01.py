"""C01 - generated legal moves are exactly the legal moves of chess.
Rule book spec/Chess.tla evaluated by TLC on traces recorded from the real MoveGen."""
import json
import os
import subprocess

import vlib

PID = "C01"
SIZES = {"quick": dict(games=260, syn=9000, files=16), "thorough": dict(games=9000, syn=400000, files=64)}


def run(tier, seed):
    rep = vlib.Report(PID, tier, seed, "model_checking")
    bdir, _ = vlib.build("plain", ["h_movegen"])
    wd = vlib.rundir(PID)
    sz = SIZES[tier]
    p = vlib.sh([os.path.join(bdir, "h_movegen"), str(seed), str(sz["games"]), str(sz["syn"]),
                 os.path.join(wd, "tr"), str(sz["files"])], timeout=3000)
    if p.returncode != 0:
        rep.violation("harness-crash", f"h_movegen exited {p.returncode}: {p.stderr[-500:]}")
        return rep.finish()
    summ = json.loads(p.stdout)
    files = [os.path.join(wd, f"tr.{k}.ndjson") for k in range(sz["files"])]
    res = vlib.validate_linear("Tr_MoveGen.tla", "Tr_MoveGen.cfg", files, wd, timeout=7000)
    for d in res:
        rep.add("states", d["states"])
        rep.add("transitions", max(d["generated"] - 1, 0))
        if d["ok"]:
            rep.add("traces_validated_against_impl")
            continue
        ln = d["rejected_at"]
        mism, snippet, _ = vlib.diagnose_line("Tr_MoveGen.tla", "Tr_MoveGen_diag.cfg", d["file"], ln, wd)
        line = open(snippet).read().strip()
        try:
            fen = json.loads(line).get("fen") or ""
        except Exception:
            fen = ""
        rep.violation(f"line:{line[:200]}", f"rule book rejects line {ln} of {d['file']}: {mism[:3]}",
                      files=[snippet], text="\n".join(mism))
    for k in ("positions", "moves", "inCheck", "withEp", "withCastle", "promos", "mates", "stalemates", "setpos", "rejected"):
        rep.cov[k] = summ[k]
    rep.cov["evaluations"] = summ["positions"] + summ["setpos"]
    rep.cov["distinct_nontrivial"] = summ["nontrivial"]
    rep.cov["distinct_positions"] = summ["distinct"]
    rep.cov["rule"] = ("positions from random legal games (initial + seeded start positions) and synthetic placements "
                       "biased to pins/double checks/ep pins/castling through attack/promotions; distinct by Zobrist key; "
                       "non-trivial = in check, or ep/castling/promotion available, or some pseudo-legal move illegal")
    rep.cov["samples"] = summ["samples"]
    rep.cov["checker_cmd"] = "tlc -config Tr_MoveGen.cfg Tr_MoveGen.tla (TRACE=<file>)"
    rep.assumptions += ["TLC evaluates spec/Chess.tla faithfully", "harness/h_movegen.cpp records MoveGen results unmodified"]
    return rep.finish()


def replay(path):
    snippet = [f for f in os.listdir(path) if f.endswith(".ndjson")]
    for s in snippet:
        r = vlib.tlc("Tr_MoveGen.tla", "Tr_MoveGen_diag.cfg", os.path.join(vlib.RUN, PID, "replay"),
                     env={"TRACE": os.path.join(path, s)})
        print("\n".join(r.prints))
    return 0
