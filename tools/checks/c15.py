"""C15 - reverse move generation is complete and consistent with forward moves (spec/RevMove.tla)."""
import json
import os

import vlib

PID = "C15"
SIZES = {"quick": dict(games=260, syn=2500, files=16), "thorough": dict(games=9000, syn=90000, files=64)}
SPEC, CFG, DIAG = "Tr_RevMove.tla", "Tr_RevMove.cfg", "Tr_RevMove_diag.cfg"


def run(tier, seed):
    rep = vlib.Report(PID, tier, seed, "model_checking")
    bdir, _ = vlib.build("plain", ["h_revmove"])
    wd = vlib.rundir(PID)
    sz = SIZES[tier]
    p = vlib.sh([os.path.join(bdir, "h_revmove"), str(seed), str(sz["games"]), str(sz["syn"]), os.path.join(wd, "rv"), str(sz["files"])], timeout=3000)
    if p.returncode != 0:
        rep.violation("harness-crash", f"h_revmove exited {p.returncode}: {p.stderr[-800:]}")
        return rep.finish()
    summ = json.loads(p.stdout)
    files = [os.path.join(wd, f"rv.{k}.ndjson") for k in range(sz["files"])]
    vlib.linear_check(rep, SPEC, CFG, DIAG, files, wd)
    for k in ("revc", "revq", "unmoves_listed", "unmoves_checked", "ep_moves", "castle_moves", "promo_captures"):
        rep.cov[k] = summ[k]
    rep.cov["evaluations"] = summ["revc"] + summ["unmoves_checked"]
    rep.cov["distinct_nontrivial"] = summ["distinct"]
    rep.cov["rule"] = ("completeness: every legal move m of sampled positions P of random games/synthetic placements, un-move lists of Q=P+m "
                       "in both includeAllEpSquares modes; consistency: sampled un-moves of visited Q restored by the real unMakeMove; "
                       "distinct (P,m) by Zobrist key of Q and move; each pair is a non-trivial obligation")
    rep.cov["samples"] = summ["samples"]
    rep.assumptions += ["TLC evaluates Chess.tla/RevMove.tla faithfully", "completeness is checked for the sampled (P,m), not for all predecessors of Q"]
    return rep.finish()


def replay(path):
    return vlib.replay_linear(PID, SPEC, DIAG, path)
