#!/usr/bin/env python3
"""Regenerates /verif/MANIFEST.json from the table below (single place to edit)."""
import json
import os

V = os.path.dirname(os.path.dirname(os.path.abspath(__file__)))
TLC_NOTE = "Trusted: TLC, the TLA+ specification named above, the recording harness."

CHECKS = {
 "C01": dict(cat="model_checking", tech="TLA+ rule-book specification (Chess.tla) + TLC trace validation of implementation traces",
   text="The TLA+ rule book spec/Chess.tla (declarative legal-move set, no bitboards/pin shortcuts) is evaluated by TLC on every position of traces recorded from the real MoveGen: legal list = Legal(pos) without duplicates, isLegal/givesCheck verdicts, evasions/captures/captures-and-checks class coverage, FEN acceptance. The oracle is total; the bound is the sample of positions.",
   note="Trusted: TLC, Chess.tla (cross-validated against the implementation in both directions), the recorder harness/h_movegen.cpp."),
 "C02": dict(cat="model_checking", tech="TLA+ stack-machine specification over Chess.tla states + TLC trace validation; sanitizer build observes the UB clause",
   text="spec/Tr_Position.tla is a stack machine (Mv/Unmv/NullOn/NullOff/Copy/Fen/Ser) over rule-book positions; TLC validates traces of the real Position in which every step logs all fields and derived attributes (hash, pawn hash, material id, material sums, piece sets, king squares) and checks them against the spec state resp. from-scratch definitions, plus functional consistency of hash keys over equal positions. The same history generator is run in an ASan+UBSan build for the undefined-behaviour clause.",
   note="Trusted: TLC, Chess.tla/Tr_Position.tla, harness/h_position.cpp, clang sanitizers as observers. Known finding: pseudo en-passant square (known_findings.json)."),
 "C15": dict(cat="model_checking", tech="TLA+ predecessor relation over Chess.tla (RevMove.tla) + TLC trace validation",
   text="spec/RevMove.tla defines the predecessor relation and the un-move that must restore P from Q=Play(P,m). TLC checks on implementation traces: completeness (for every legal move of sampled positions the un-move list of Q contains m with exactly P's captured piece, castle mask and ep state, in both includeAllEpSquares modes) and consistency (every sampled listed un-move, restored by the real unMakeMove, yields a position where the move is legal and leads back to Q).",
   note="Trusted: TLC, Chess.tla/RevMove.tla, harness/h_revmove.cpp. Completeness is over sampled (P,m) pairs."),
 "C03": dict(cat="model_checking", tech="TLA+ rule book + search-output trace specification (Tr_SearchOut.tla) validated by TLC against real engine sessions",
   text="Seeded single-search UCI sessions (limit kinds x options x 4 synthetic nets x root classes incl. mate/stalemate/single-move/hmc>=97 roots) are run against the real engine binary; TLC validates every info-pv line and the bestmove/ponder line against the rule book: pv is a path of legal moves from the root, first move among the (search)moves, score range and mate encoding, at most one bound flag, multipv indices bounded and first moves of one report pairwise distinct, bestmove legal and in searchmoves, null move iff no legal move, ponder move legal.",
   note="Trusted: TLC, Chess.tla/Tr_SearchOut.tla, the python UCI driver (tools/uci.py, tools/sessions.py); synthetic nets replace the emptied network file."),
 "C11": dict(cat="model_checking", tech="TLA+ game-history specification (ChessGame.tla: FIDE repetition keys, 50-move count, console draw-claim state machine) + TLC trace validation of engine scores and console-game command traces",
   text="spec/ChessGame.tla defines third occurrence (FideKey), 50-move completion and the console game's command/state machine. TLC validates (a) engine traces: for histories with shuffles, hmc 90..110 and pseudo-ep first occurrences, every root move's own exact score (MultiPV over all root moves) must be cp 0 when the move creates a third occurrence or completes 50 moves, mate 1 if it mates; (b) console traces: after every command of random command sequences (moves, draw rep/50 claims, offer/accept, undo/redo, resign, setpos) return value, game state, draw-offer flag and position agree with the specification.",
   note="Trusted: TLC, Chess.tla/ChessGame.tla, harness/h_game.cpp, python UCI driver. Contempt 0."),
 "C12": dict(cat="model_checking", tech="TLA+ Bellman/DTM specification over the rule book (FewMen.tla) + TLC validation of table rows (certificates) and of abort-injection traces",
   text="For rows of the real TBGenerator (own-memory and in-hash back ends) TLC checks against the rule book: successor list = Legal(pos), the Bellman optimality equation between the row value and all probed successor values (mate/stalemate leaves included), 'not found' exactly outside the table's scope (castling rights, pawns, foreign material). One 3-man class is enumerated over all 64^3 x 2 raw placements per run, the other 3-man and a rotating sample of 4-man classes are sampled. Aborts are injected at every phase boundary through a TEXEL_VERIF hook that arms the real time-limit/stop tests, followed by hash traffic; every later probe must be unanswered and a completed table must lie outside the hash region.",
   note="Trusted: TLC, Chess.tla/FewMen.tla, harness/h_tb.cpp; exactness follows from local consistency on all rows (exhaustive class) and is sampled elsewhere."),
 "C13": dict(cat="model_checking", tech="TLA+ DTM specification (FewMen.tla) + TLC validation of engine reports against certified table rows",
   text="Roots are random legal placements of pawnless <=4-man classes with half-move clocks 0..99 (nets, Threads 1..4, Hash 8..64). The real engine runs 'go infinite' until its on-demand table is built, then is stopped; TLC checks (Tr_TB.tla, TTbSearch): oracle row Bellman-consistent, reported score = exact 'mate +-DTM' when the mate completes before the 50-move limit, drawn roots never a mate score, beyond the limit no mate with three men and never a mate shorter than DTM, best move legal, keeps a shortest mate, never turns a draw into a loss.",
   note="Trusted: TLC, FewMen.tla, the DTM rows of TBGenerator<VectorStorage> (C12's claim, each used row re-checked for Bellman consistency)."),
 "C04": dict(cat="model_checking", tech="TLA+ proof-tree / refutation-tree certificate specification (Mate.tla) checked by TLC; DTM rows for <=4-man roots",
   text="Every 'mate N' (exact or lower bound) printed by full-strength searches, the best move delivered with it, final 'mate -N' scores and the mate-in-one clause (final score mate 1 and a mating move at every completed depth) are judged by TLC: pawnless <=4-man roots against certified DTM rows; otherwise against proof trees / refutation trees / lost trees produced by an untrusted brute-force solver and validated node by node against the rule book (attacker nodes one legal move, defender nodes all of Legal(pos), leaves IsMate). Only a TLC-validated refutation is a violation; undecided claims are counted.",
   note="Trusted: TLC, Chess.tla/Mate.tla. Untrusted: harness/h_mate.cpp (its certificates are checked). Roots: solver-harvested forced mates <=2 (quick) / <=3 (thorough), harvested mate-in-one families (castle/ep/promotion/discovered/double check), decisive 3/4-man placements."),
 "C14": dict(cat="model_checking", tech="TLA+ session-state specification (Session.tla: which caches outlive a search, Clear Hash contract) + TLC validation of two-process result traces",
   text="spec/Session.tla models the engine-lifetime state (hash contents, generation counter, history tables, resident tablebase, evaluation cache, option deltas) and the contract of Clear Hash. Process A replays a seeded prior session (1..40 searches of all limit kinds, ucinewgame, reverted option changes, tablebase roots, related positions, fixed Contempt/Hash), then Clear Hash and a probe search; a fresh process B runs the probe twice. TLC decides from the command trace that the states are Fresh with equal options and then requires identical best move, final score, PV and node count (A vs B, B vs B2).",
   note="Trusted: TLC, Session.tla, python driver. Threads=1; wall-clock driven periodic info lines are excluded from the comparison."),
 "C07": dict(cat="model_checking", tech="TLA+ functional-consistency / symmetry specification over Chess.tla (Tr_Eval.tla) + TLC validation of evaluation traces incl. a TEXEL_VERIF hook inside real searches",
   text="The implementation supplies the numbers, the specification (FlipColour, MirrorX and position identity of Chess.tla) decides which evaluations must agree. TLC validates pairs: incrementally maintained network state after make/unmake/null-move/copy histories vs evaluation from scratch with empty caches, the same position under another contempt through a polluted cache, every k-th evaluation performed inside real searches (observation hook) vs from scratch, colour flip with negated contempt, left-right mirror without castling rights, and every SIMD build variant the CPU supports vs the generic build, for 3-4 synthetic networks.",
   note="Trusted: TLC, Chess.tla symmetries, harness/h_eval.cpp. Builds use -O3 like upstream (see DESIGN.md: g++ 12 -O2 miscomputes the generic path)."),
 "C20": dict(cat="model_checking", tech="TLA+ specification of constraint satisfiability (Csp.tla: declarative and algorithmic definitions cross-checked exhaustively by TLC) + TLC trace validation of the real solver",
   text="Csp.tla defines satisfiability of a system of ranges, parities and difference constraints twice: SatDecl (existence of an assignment) and SatAlg (parity case split, halving, bounds fixed point). TLC checks SatDecl = SatAlg on every system of a small bound (62k systems quick, 174k thorough) and on every small system of the traces, then judges the real CspSolver on seeded systems of 1..10 variables inside [-16,47] under all four value-preference orders: reported solvability = Sat(sys) and each returned assignment satisfies every domain and constraint.",
   note="Trusted: TLC, Csp.tla. The algorithmic oracle is used alone only when the assignment space exceeds 3000 points."),
 "C10": dict(cat="model_checking", tech="TLA+ design model of the thread controller (SearchControl.tla) model-checked by TLC + TLC validation of hook-recorded traces of the real engine (Tr_Control.tla) under seeded schedule perturbation",
   text="(1) SearchControl.tla (protocol, engine and helper threads; one action per critical section, notifier operation and mailbox poll) is model-checked exhaustively for several helper trees and command scripts: deadlock freedom, at most one bestmove per search, quiescence at the search=false hand-over, non-negative ack counters, results only for the current job, and under fairness termination and every go answered. (2) The engine built with the TEXEL_VERIF hooks runs seeded command scripts (go/finish, go/stop, ponder/ponderhit, ponder/stop, back-to-back go, Threads changes, quit during search) with Threads 1..8 under seeded priority-based schedule perturbation; events logged inside the critical sections are validated by TLC against Tr_Control.tla, which rebuilds mailboxes, ack counters and job ids with the design's rules and evaluates the monitor (ExactlyOneBest, BestOnlyWhenReleased, QuiescentAtDone/AtStart, AckCountersNonNegative, ResultOnlyForCurrentJob, EverySearchAnswered). Hangs (watchdog), crashes and missing bestmoves are violations; design-only mismatches are reported as MODEL-DRIFT.",
   note="Trusted: TLC, SearchControl.tla/Tr_Control.tla, the hook library sched/vsched.cpp. Real-code schedules are sampled, not enumerated; exhaustive interleaving coverage is on the model."),
 "C05": dict(cat="model_checking", tech="TLA+ session-contract monitor on hook traces of the real engine (Tr_Control.tla) + TLA+ stdin/stdout/exit monitor on sanitizer-build sessions (Tr_Uci.tla); design model SearchControl.tla",
   text="Seeded UCI sessions of 3..60 commands over the whole command alphabet (before initialisation, during search, repeated, unknown words, blank lines, every declared option with valid / out-of-range / unknown values, quit or EOF) are run (a) in the hooked engine under schedule perturbation, the hook trace being validated by TLC: readyok before the next command and only for isready, no search output outside a search or after its bestmove, options applied only between searches, every go answered exactly once, plus the C10 monitor; (b) black-box in the ASan+UBSan build, where TLC checks exit status 0, one bestmove per go, one readyok per isready, every output line well-formed, no sanitizer report; (c) a running depth-limited search must give the identical result with and without setoption commands sent while it runs, and the new values must be in effect afterwards.",
   note="Trusted: TLC, Tr_Control.tla/Tr_Uci.tla, sched/vsched.cpp hooks, the output grammar in tools/checks/c05.py. Four genuine defects were found and fixed (known_findings.json)."),
 "C06": dict(cat="model_checking", tech="TLA+ time-control design model (TimeControl.tla) model-checked by TLC + TLC validation of hook traces of the real engine under a node-driven virtual clock (Tr_Time.tla)",
   text="TimeControl.tla states the contract (envelope 1 <= soft <= hard <= budget, poll at most K ticks apart, stop rule) and TLC checks Deadline / prompt stop / prompt ponderhit for all small parameter values. The hooked engine is run under a virtual clock that advances only with searched nodes (deterministic, no wall clock) on log-uniformly drawn go parameters (wtime/btime 1..1e7, increments, movestogo, movetime, BufferTime 1..10000, Ponder, Threads 1..4, MaxNPS 0 / 150k..200M, UCI_LimitStrength, one-move and many-move roots; plain / stop / ponderhit / ponder+stop). TLC validates: the limits handed to the search (hook in startThread / ponderHit) satisfy the envelope with budget = movetime resp. max(1, clock - min(BufferTime, 9*clock/10)); bestmove no later than start + hard + slack; within slack after stop, and after ponderhit once the limits are exhausted.",
   note="Trusted: TLC, TimeControl.tla/Tr_Time.tla, sched/vsched.cpp virtual clock. The virtual clock follows the nodes of the main search thread (the thread that polls the limits), so verdicts do not depend on OS scheduling of helper threads. MaxNPS is exercised only above the virtual clock's own rate (below it the engine sleeps in real time); UCI_LimitStrength with a high Elo likewise. Slack = 2 polling intervals of 1000 nodes + 5 virtual ms."),
 "C08": dict(cat="model_checking", tech="TLA+ two-word slot model (TTSlot.tla, TLC exhaustive) + index lemma (TTIndex.tla, Apalache, all sizes) + TLC validation of traces of the real table (Tr_TT.tla)",
   text="TTSlot.tla models a slot as two independently ordered word accesses per store/load with XOR as symmetric difference; TLC exhausts 2 writers x 1 prober and proves HitIsAUnit (and refutes the un-xored and the data-word-read-twice variants as vacuity controls). TTIndex.tla states the index function for arbitrary sizes; Apalache discharges IndexSafe over unbounded integers. On the real TranspositionTable TLC validates: every distinct result of ~10^8 concurrent stores/probes by 2..16 threads on <=3 buckets is a catalogue unit stored for exactly that key; index records for 39 table sizes (1..256 MB, non powers of two, the reduced size with a resident tablebase) x boundary key bits equal the formula and are safe; mate scores stored at ply p and read at ply q shift by q-p; a resident tablebase region is byte-identical after 6M ordinary stores.",
   note="Trusted: TLC, Apalache (index lemma), TTSlot/TTIndex/Tr_TT specs, harness/h_tt.cpp. Hardware reordering of relaxed stores is covered by the model only."),
 "C19": dict(cat="model_checking", tech="TLA+ fixed-point specification of the book graph equations (BookGraph.tla) + TLC validation of graph dumps of the real BookBuild::Book",
   text="BookGraph.tla transcribes the defining equations of bookbuild.hpp (mutually consistent links, shortest depth, negamax with INVALID/IGNORE/mate negation and covered dropout moves, expansion costs for both book players, path errors over all parents). Seeded operation sequences (extend under random nodes incl. transpositions with extra parents and pre-existing children, search results incl. mate/0/IGNORE/INVALID, pending marks, PGN import, save/load) are applied to the real Book; after every operation (every k-th for books of hundreds of nodes) the whole graph is dumped and TLC evaluates FixedPoint on it, and requires a reloaded book to equal the saved graph.",
   note="Trusted: TLC, BookGraph.tla, harness/h_book.cpp (reads nodes through public getters and the friend class name BookBuildTest). One genuine defect (stale path error) found and fixed."),
 "C16": dict(cat="model_checking", tech="TLA+ rule book (Chess.tla) + proof-game trace specification (Tr_Proof.tla) validated by TLC: reachability witnesses and printed proof games are replayed in the specification, distance bounds compared with the witness's own continuation",
   text="Seeded random legal games from the initial position (1..150 plies, >= 26 men, castling and double pushes preferred now and then) are positions reachable by construction; TLC re-plays each generating game in Chess.tla (ground truth), then checks the verdict of the real 'texelutil proofgame -f -o' pipeline (static rules, distance heuristic, proof kernel, extended kernel, A* search) on the final position: never 'illegal', and every printed proof game is a legal game from InitPos ending in the goal (board, side, castling, FIDE ep). ProofGame::distLowerBound(prefix position -> final or later prefix position) must not exceed the number of plies the game itself needs (also for games trading down to 8 men).",
   note="Trusted: TLC, Chess.tla/Tr_Proof.tla, harness/h_proof.cpp, the repository's SAN parser for reading printed proof games. The per-stage kernel replay of DESIGN.md is not implemented: kernel stages are observed through the filter's verdicts only. The filter is time-boxed in the quick tier."),
 "C18": dict(cat="model_checking", tech="TLA+ abstract opening-book specification over the rule book (Book.tla) + TLC validation of probe traces of the real Book incl. damaged polyglot files; sanitizer build observes the crash clause",
   text="Book.tla states the contract of a probe (legal move or none; for a well-formed book only stored positive-weight moves and, over enough probes, each of them). Abstract books with duplicate keys, zero weights and castling moves are written as polyglot files and in damaged variants (truncated at arbitrary byte lengths, corrupted bytes, unsorted, missing, pure garbage); 400 probes per stored position of valid books, probes of absent positions and of the built-in book along its own lines are validated by TLC against Legal(pos) and the stored bags. The same driver runs in the ASan+UBSan build.",
   note="Trusted: TLC, Chess.tla/Book.tla, harness/h_polybook.cpp, the repository's own polyglot encoder for producing files."),
}

NOT_APPLICABLE = {
 "C09": "Data-race freedom over arbitrary memory locations needs a happens-before tracker on every access; a TLA+ trace only contains hooked events (DESIGN.md 6).",
 "C17": "Text round-trip fidelity and robustness to arbitrary bytes are fuzzing/memory-safety questions without state-machine content (DESIGN.md 6).",
}
PENDING = "check not yet built in this round (DESIGN.md 10 work plan)"


def main():
    hooks_commits = []
    hc = os.path.join(V, "tools", "hook_commits.txt")
    if os.path.exists(hc):
        hooks_commits = [l.strip() for l in open(hc) if l.strip()]
    m = {
        "version": 1,
        "setup_cmd": "tools/vsetup",
        "hooks": {"guard": "TEXEL_VERIF",
                  "enable": "tools/vbuild.py compiles /repo's working tree with -DTEXEL_VERIF into /verif/build/<variant>/ (never uses /repo/_build)",
                  "baseline_off_cmd": "/verif/tools/baseline_off.sh", "source_commits": hooks_commits,
                  # all hook commits only add lines, except one that adds braces around three one-statement wait loops
                  # (Notifier::wait, waitStop, waitOptionsSet) to place a yield point between the predicate test and the cv wait
                  "add_only": False},
        "engines": [{"name": "tlc", "path": "/opt/veriftools/tla/tla2tools.jar", "serves_properties": sorted(CHECKS),
                     "kind_free_text": "TLA+ explicit-state model checker: model checking of the design specs and validation of implementation traces"}],
        "checks": [], "not_applicable": [],
        "notes": "Model-based verification with explicit TLA+ specifications (spec/*.tla) bound to the code by trace validation; see DESIGN.md.",
    }
    for pid in sorted(CHECKS):
        c = CHECKS[pid]
        m["checks"].append({
            "property_id": pid, "quick_cmd": f"tools/vcheck {pid} quick", "thorough_cmd": f"tools/vcheck {pid} thorough",
            "evidence_file": f"/verif/evidence/{pid}.json", "replay_cmd_template": f"tools/vcheck {pid} --replay {{path}}",
            "engine": c.get("engine", "tlc"),
            "level_claimed": {"category": c["cat"], "text": c["text"], "design_ref": f"DESIGN.md 5 {pid}"},
            "level_note": c.get("note", TLC_NOTE), "technique": c["tech"]})
    for n in range(1, 21):
        pid = f"C{n:02d}"
        if pid in CHECKS:
            continue
        m["not_applicable"].append({"property_id": pid, "reason": NOT_APPLICABLE.get(pid, PENDING)})
    json.dump(m, open(os.path.join(V, "MANIFEST.json"), "w"), indent=1)
    print("MANIFEST.json:", len(m["checks"]), "checks,", len(m["not_applicable"]), "not applicable")


if __name__ == "__main__":
    main()
