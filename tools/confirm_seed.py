#!/usr/bin/env python3
"""confirm_seed.py <worktree> : independently confirm a sub-agent's seeded defect in its scratch worktree:
 (1) unchanged tree builds, demo passes; (2) with patch: builds, all stable_pass tests still pass, demo fails.
Prints a JSON summary.  The worktree's out/meta.json supplies demo build/run commands."""
import json, os, subprocess, sys, re
wt = sys.argv[1]
out = os.path.join(wt, "out")
meta = json.load(open(os.path.join(out, "meta.json")))
def sh(cmd, t=3000):
    p = subprocess.run(cmd, shell=True, cwd=wt, stdout=subprocess.PIPE, stderr=subprocess.STDOUT, text=True, timeout=t)
    return p.returncode, p.stdout
def build():
    rc, o = sh("cmake -G Ninja -B _build -S . >/dev/null && cmake --build _build 2>&1 | tail -3")
    return rc == 0, o[-500:]
def demo():
    cmds = meta.get("demo_build_cmd") or ""
    rc, o = sh(meta["demo_cmd"], 600)
    return rc, o[-1500:]
def ctest():
    sh("rm -f /tmp/junit_seed.xml; ctest --test-dir _build -j8 --timeout 900 --output-junit /tmp/junit_seed.xml >/dev/null 2>&1")
    x = open("/tmp/junit_seed.xml").read()
    res = {}
    for m in re.finditer(r'<testcase name="([^"]+)"[^>]*status="(\w+)"', x):
        res[m.group(1)] = m.group(2)
    base = json.load(open("/root/.vp/BASELINE.json"))["stable_pass"]
    bad = [b for b in base if res.get(b.split("::")[0]) not in ("run",)]
    return len(res), bad
r = {}
sh("git stash -q -- lib app test 2>/dev/null || git checkout -- lib app test")
r["clean_build"] = build()[0]
r["demo_clean_rc"] = demo()[0]
sh("git checkout -- lib app test; git stash drop -q 2>/dev/null; git apply out/patch.diff")
ok, o = build()
r["patched_build"] = ok
n, bad = ctest()
r["tests_seen"] = n
r["stable_pass_broken"] = bad
rc, o = demo()
r["demo_patched_rc"] = rc
r["demo_patched_tail"] = o[-400:]
r["confirmed"] = bool(r["clean_build"] and r["demo_clean_rc"] == 0 and r["patched_build"] and not bad and n > 100 and rc != 0)
print(json.dumps(r, indent=1))
