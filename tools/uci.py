"""Minimal UCI driver + FEN/move helpers for the engine-level checks (no third-party modules)."""
import os
import queue
import subprocess
import threading
import time

PIECES = " KQRBNPkqrbnp"


def fen_to_fields(fen):
    """FEN -> dict(board[64], wtm, castle, ep, hmc, full) in texel numbering (raw fields, no repair)."""
    parts = fen.split()
    board = [0] * 64
    y, x = 7, 0
    for ch in parts[0]:
        if ch == "/":
            y -= 1
            x = 0
        elif ch.isdigit():
            x += int(ch)
        else:
            board[y * 8 + x] = PIECES.index(ch)
            x += 1
    wtm = parts[1] == "w"
    c = parts[2] if len(parts) > 2 else "-"
    castle = (2 if "K" in c else 0) | (1 if "Q" in c else 0) | (8 if "k" in c else 0) | (4 if "q" in c else 0)
    ep = -1
    if len(parts) > 3 and parts[3] != "-":
        ep = (ord(parts[3][0]) - 97) + 8 * (int(parts[3][1]) - 1)
    hmc = int(parts[4]) if len(parts) > 4 else 0
    full = int(parts[5]) if len(parts) > 5 else 1
    return {"board": board, "wtm": wtm, "castle": castle, "ep": ep, "hmc": hmc, "full": full}


def uci_to_mv(s, wtm):
    """'e7e8q' -> [from, to, promoPiece] (promotion piece coloured by the mover)."""
    if s == "0000" or len(s) < 4:
        return [0, 0, 0]
    f = (ord(s[0]) - 97) + 8 * (int(s[1]) - 1)
    t = (ord(s[2]) - 97) + 8 * (int(s[3]) - 1)
    p = 0
    if len(s) > 4:
        p = {"q": 2, "r": 3, "b": 4, "n": 5}[s[4]] + (0 if wtm else 6)
    return [f, t, p]


def mv_list(moves, wtm):
    out = []
    for m in moves:
        out.append(uci_to_mv(m, wtm))
        wtm = not wtm
    return out


class Engine:
    """A texel process driven through pipes.  All output lines are timestamped in arrival order."""

    def __init__(self, binary, env=None, stderr=None):
        self.p = subprocess.Popen([binary], stdin=subprocess.PIPE, stdout=subprocess.PIPE, stderr=stderr or subprocess.DEVNULL,
                                  text=True, bufsize=1, env=env)
        self.q = queue.Queue()
        self.log = []          # (kind 'in'|'out', text)
        self.t = threading.Thread(target=self._reader, daemon=True)
        self.t.start()

    def _reader(self):
        try:
            for line in self.p.stdout:
                self.q.put(line.rstrip("\n"))
        except Exception:
            pass
        self.q.put(None)

    def send(self, cmd):
        self.log.append(("in", cmd))
        try:
            self.p.stdin.write(cmd + "\n")
            self.p.stdin.flush()
        except (BrokenPipeError, OSError):
            pass

    def read_until(self, pred, timeout):
        """Collect output lines until pred(line) is true; returns (lines, ok)."""
        lines = []
        end = time.time() + timeout
        while True:
            rem = end - time.time()
            if rem <= 0:
                return lines, False
            try:
                l = self.q.get(timeout=rem)
            except queue.Empty:
                return lines, False
            if l is None:
                return lines, False
            self.log.append(("out", l))
            lines.append(l)
            if pred(l):
                return lines, True

    def drain(self, quiet=0.05):
        lines = []
        while True:
            try:
                l = self.q.get(timeout=quiet)
            except queue.Empty:
                return lines
            if l is None:
                return lines
            self.log.append(("out", l))
            lines.append(l)

    def isready(self, timeout=30):
        self.send("isready")
        return self.read_until(lambda l: l == "readyok", timeout)

    def quit(self, timeout=10):
        self.send("quit")
        try:
            return self.p.wait(timeout=timeout)
        except subprocess.TimeoutExpired:
            self.p.kill()
            return "hang"

    def kill(self):
        try:
            self.p.kill()
        except Exception:
            pass


def parse_info(line, wtm):
    """Parse an 'info ... pv ...' line -> dict or None (lines without pv are ignored)."""
    tok = line.split()
    if not tok or tok[0] != "info" or "pv" not in tok or "score" not in tok:
        return None
    d = {"depth": 0, "multipv": 0, "kind": "cp", "val": 0, "bound": "", "nodes": 0}
    i = 1
    while i < len(tok):
        t = tok[i]
        if t == "depth":
            d["depth"] = int(tok[i + 1]); i += 2
        elif t == "multipv":
            d["multipv"] = int(tok[i + 1]); i += 2
        elif t == "score":
            d["kind"] = tok[i + 1]; d["val"] = int(tok[i + 2]); i += 3
            if i < len(tok) and tok[i] in ("lowerbound", "upperbound"):
                d["bound"] = tok[i]; i += 1
                if i < len(tok) and tok[i] in ("lowerbound", "upperbound"):
                    d["bound"] = "both"; i += 1
        elif t == "nodes":
            d["nodes"] = int(tok[i + 1]); i += 2
        elif t == "pv":
            d["pv"] = mv_list(tok[i + 1:], wtm)
            d["pvs"] = tok[i + 1:]
            break
        else:
            i += 1
    return d
