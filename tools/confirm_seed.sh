#!/bin/bash
# confirm_seed.sh <worktree> "<demo build+run command, run from worktree root after cmake build>"
# Confirms independently: clean tree -> demo passes; patched tree -> builds, stable_pass tests still pass, demo fails.
WT=$1; DEMO=$2
cd $WT || exit 2
git checkout -q -- lib app test 2>/dev/null; git status --short | grep -v '^??' 
build() { cmake -G Ninja -B _build -S . >/dev/null 2>&1 && cmake --build _build >/dev/null 2>&1; }
build || { echo "CLEAN BUILD FAILED"; exit 1; }
bash -c "$DEMO" >/tmp/demo_clean.$$ 2>&1; c=$?
git apply out/patch.diff || { echo "PATCH DOES NOT APPLY"; exit 1; }
build || { echo "PATCHED BUILD FAILED"; exit 1; }
rm -f /tmp/junit.$$.xml; ctest --test-dir _build -j8 --timeout 900 --output-junit /tmp/junit.$$.xml >/dev/null 2>&1
python3 - $$ <<'PY'
import re,json,sys
x=open('/tmp/junit.%s.xml'%sys.argv[1]).read()
res={}
for m in re.finditer(r'<testcase name="([^"]+)"[^>]*?status="(\w+)"',x): res[m.group(1)]=m.group(2)
fails=set(re.findall(r'<testcase name="([^"]+)"[^>]*>\s*<failure',x))
base=json.load(open('/root/.vp/BASELINE.json'))['stable_pass']
def nm(b):
    a=b.split('::')
    return a[0] if '.' in a[0] else a[0]+'.'+a[1]
bad=[b for b in base if nm(b) not in res or nm(b) in fails]
print("tests seen",len(res),"failed",len(fails),"stable_pass broken:",bad)
PY
bash -c "$DEMO" >/tmp/demo_patched.$$ 2>&1; p=$?
echo "demo clean rc=$c patched rc=$p"; tail -3 /tmp/demo_patched.$$
rm -rf _build /tmp/junit.$$.xml /tmp/demo_clean.$$ /tmp/demo_patched.$$
