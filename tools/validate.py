#!/usr/bin/env python3
"""Validate MANIFEST.json and evidence/*.json against the schemas (uses the tooling venv's jsonschema)."""
import glob, json, sys
import jsonschema
ok = True
def v(f, s):
    global ok
    try:
        jsonschema.validate(json.load(open(f)), json.load(open(s)))
    except Exception as e:
        ok = False
        print("INVALID", f, str(e)[:300])
v('/verif/MANIFEST.json', '/root/.vp/MANIFEST.schema.json')
for f in sorted(glob.glob('/verif/evidence/*.json')):
    v(f, '/root/.vp/EVIDENCE.schema.json')
print("validate:", "ok" if ok else "FAILED")
sys.exit(0 if ok else 1)
