#!/bin/bash
# regress.sh [pattern]: runs every mutant / seeded patch against the check of its property (tools/vmutant, scratch worktree) and
# prints one line per patch: expected = exit 1 (caught), except *benign* patches (expected exit 0).
cd /verif
pat=${1:-.}
for p in mutants/*.patch seeded/*/patch.diff; do
  echo "$p" | grep -q "$pat" || continue
  case "$p" in
    mutants/*) id=$(basename "$p" | cut -d_ -f1);;
    *) id=$(basename "$(dirname "$p")" | cut -d- -f1)
       # the check that catches a seed is recorded in its meta.json (a seed written for one property may be caught by another's check)
       m=$(python3 -c "import json,re,sys; d=json.load(open(sys.argv[1])); print(re.search(r'vcheck (C[0-9]+)', d.get('detected_by',{}).get('check','')).group(1))" "$(dirname "$p")/meta.json" 2>/dev/null)
       [ -n "$m" ] && id=$m;;
  esac
  t0=$(date +%s)
  out=$(timeout 2400 tools/vmutant "$p" "$id" quick 2>&1 | grep -v "^WARNING conda")
  rc=$(echo "$out" | grep -o "vmutant: .* exit=[0-9]*" | grep -o "[0-9]*$")
  exp=1; case "$p" in *benign*) exp=0;; esac
  verdict=OK; [ "$rc" = "$exp" ] || verdict=UNEXPECTED
  echo "$verdict rc=$rc expected=$exp $(( $(date +%s) - t0 ))s $p"
done
