#!/usr/bin/env python3
"""Build /repo's *current working tree* (with -DTEXEL_VERIF) plus the verification
harnesses into /verif/build/<variant>/ using a generated ninja file.

Variants:
  plain      g++ -O2, generic SIMD           (default for all harnesses)
  san        clang++ ASan+UBSan -O1
  ssse3/avx2/avx512   g++ -O2 with the corresponding USE_* defines (C07)

Usage: vbuild.py <variant> [ninja targets...]
Nothing here reads /repo/_build; sources are globbed so a file added to /repo is
picked up.  Object files are cached by ninja (and ccache) so an edit to one /repo
source recompiles only what depends on it.
"""
import glob
import os
import subprocess
import sys

REPO = os.environ.get("VERIF_REPO", "/repo")
VERIF = os.path.dirname(os.path.dirname(os.path.abspath(__file__)))
NETS = ["rand1", "rand2", "material", "extreme", "overflow"]
NET_HARNESSES = ["h_eval"]

VARIANTS = {
    "plain": dict(cxx="g++", cc="gcc", flags="-O3 -g0"),
    "san": dict(cxx="clang++", cc="clang",
                flags="-O1 -g -fsanitize=address,undefined -fno-sanitize-recover=undefined "
                      "-fno-omit-frame-pointer"),
    "tsan": dict(cxx="clang++", cc="clang", flags="-O1 -g -fsanitize=thread"),
    "ssse3": dict(cxx="g++", cc="gcc", flags="-O3 -g0 -DUSE_SSSE3 -mssse3"),
    "avx2": dict(cxx="g++", cc="gcc", flags="-O3 -g0 -DUSE_SSSE3 -DUSE_AVX2 -mssse3 -mavx2"),
    "avx512": dict(cxx="g++", cc="gcc",
                   flags="-O3 -g0 -DUSE_SSSE3 -DUSE_AVX2 -DUSE_AVX512 -mssse3 -mavx2 "
                         "-mavx512f -mavx512bw -mavx512vnni"),
}


def rel_obj(src):
    return src.strip("/").replace("/", "_") + ".o"


def gen(variant):
    v = VARIANTS[variant]
    bdir = os.path.join(os.environ.get("VERIF_BUILD", os.path.join(VERIF, "build")), variant)
    os.makedirs(bdir, exist_ok=True)
    tl = os.path.join(REPO, "lib/texellib")
    ul = os.path.join(REPO, "lib/texelutillib")
    inc = [tl, tl + "/book", tl + "/debug", tl + "/hw", tl + "/nn", tl + "/tb", tl + "/util",
           tl + "/tb/gtb/sysport", tl + "/tb/gtb/compression", tl + "/tb/gtb/compression/lzma",
           ul, ul + "/pg", REPO + "/app/texel", REPO + "/app/texelutil",
           VERIF + "/harness", VERIF + "/sched"]
    incf = " ".join("-I" + i for i in inc)
    ccache = "ccache " if subprocess.call("which ccache >/dev/null 2>&1", shell=True) == 0 else ""
    common = f"-DHAS_RT -DTEXEL_VERIF {incf} -Wno-error -w -fno-stack-protector {v['flags']}"
    out = []
    w = out.append
    w(f"cxx = {ccache}{v['cxx']}")
    w(f"cc = {ccache}{v['cc']}")
    w(f"cxxflags = -std=c++11 {common}")
    w(f"cxx17flags = -std=c++17 {common}")
    w(f"cflags = {common}")
    w(f"ldflags = {v['flags']} -pthread")
    w("rule cxx\n  command = $cxx $cxxflags -MD -MF $out.d -c $in -o $out\n  depfile = $out.d\n  deps = gcc\n  description = CXX $out")
    w("rule cxx17\n  command = $cxx $cxx17flags -MD -MF $out.d -c $in -o $out\n  depfile = $out.d\n  deps = gcc\n  description = CXX17 $out")
    w("rule cc\n  command = $cc $cflags -MD -MF $out.d -c $in -o $out\n  depfile = $out.d\n  deps = gcc\n  description = CC $out")
    w("rule ar\n  command = rm -f $out && ar crs $out $in\n  description = AR $out")
    w("rule link\n  command = $cxx $in $libs $ldflags -lrt -o $out\n  description = LINK $out")
    w(f"rule gennet\n  command = {bdir}/gennet $out $name\n  description = GENNET $out")
    w("rule incbin\n  command = printf '#include \"incbin.h\"\\nINCBIN(NNData, \"%s\");\\n' $in > $out.c && $cc $cflags -c $out.c -o $out\n  description = INCBIN $out")

    def compile_all(srcs):
        objs = []
        for s in sorted(srcs):
            o = "obj/" + rel_obj(os.path.relpath(s, "/"))
            rule = "cc" if s.endswith(".c") else "cxx"
            w(f"build {o}: {rule} {s}")
            objs.append(o)
        return objs

    lib_srcs = [s for s in glob.glob(tl + "/**/*.cpp", recursive=True) + glob.glob(tl + "/**/*.c", recursive=True)
                if not s.endswith("nn/incbin.c")]
    lib_objs = compile_all(lib_srcs)
    w("build libtexel.a: ar " + " ".join(lib_objs))
    util_srcs = glob.glob(ul + "/**/*.cpp", recursive=True)
    util_objs = compile_all(util_srcs)
    w("build libtexelutil.a: ar " + " ".join(util_objs))
    app_srcs = glob.glob(REPO + "/app/texel/*.cpp")
    app_objs = compile_all(app_srcs)
    appu_srcs = glob.glob(REPO + "/app/texelutil/*.cpp")
    appu_objs = compile_all(appu_srcs)
    sched_srcs = glob.glob(VERIF + "/sched/*.cpp")
    sched_objs = compile_all(sched_srcs)
    w("build libsched.a: ar " + " ".join(sched_objs))
    SCHED = " ".join(sched_objs)       # linked as objects so that the static initialiser of vsched.cpp is kept

    # nets
    w(f"build gennet.o: cxx {VERIF}/harness/tools/gennet.cpp")
    w("build gennet: link gennet.o libtexel.a libsched.a")
    w("  libs = ")
    for n in NETS:
        w(f"build nets/{n}.compr: gennet | gennet\n  name = {n}")
        w(f"build nets/nn_{n}.o: incbin nets/{n}.compr")
    os.makedirs(bdir + "/nets", exist_ok=True)

    # engine binaries, one per net
    targets = []
    for n in NETS:
        w(f"build texel-{n}: link {' '.join(app_objs)} nets/nn_{n}.o libtexel.a {SCHED}")
        targets.append(f"texel-{n}")
    w(f"build texelutil: link {' '.join(appu_objs)} nets/nn_rand1.o libtexelutil.a libtexel.a {SCHED}")
    targets.append("texelutil")

    # harnesses: every harness/*.cpp is one executable
    for s in sorted(glob.glob(VERIF + "/harness/*.cpp")):
        name = os.path.splitext(os.path.basename(s))[0]
        o = f"hobj/{name}.o"
        w(f"build {o}: cxx {s}")
        extra = ""
        if name in ("h_uciobj",):
            extra = " ".join(a for a in app_objs if not a.endswith("texel.cpp.o")) + " "
        w(f"build {name}: link {o} {extra}nets/nn_rand1.o libtexelutil.a libtexel.a {SCHED}")
        targets.append(name)
        if name in NET_HARNESSES:      # one executable per synthetic network
            for n in NETS:
                w(f"build {name}-{n}: link {o} {extra}nets/nn_{n}.o libtexelutil.a libtexel.a {SCHED}")
                targets.append(f"{name}-{n}")
    w("default " + " ".join(targets))
    path = os.path.join(bdir, "build.ninja")
    text = "\n".join(out) + "\n"
    old = open(path).read() if os.path.exists(path) else None
    if old != text:
        with open(path, "w") as f:
            f.write(text)
    return bdir


def build(variant, targets=(), quiet=True):
    bdir = gen(variant)
    cmd = ["ninja", "-C", bdir, "-j", str(os.cpu_count() or 8)] + list(targets)
    r = subprocess.run(cmd, stdout=subprocess.PIPE, stderr=subprocess.STDOUT, text=True)
    if r.returncode != 0:
        sys.stderr.write(r.stdout[-6000:])
        raise SystemExit(2)
    if not quiet:
        print(r.stdout[-400:])
    return bdir


if __name__ == "__main__":
    var = sys.argv[1] if len(sys.argv) > 1 else "plain"
    build(var, sys.argv[2:], quiet=False)
