"""Common machinery for /verif/tools/vcheck: builds, TLC runs, evidence, verdicts."""
import concurrent.futures as cf
import json
import os
import re
import shutil
import subprocess
import sys
import time

VERIF = os.path.dirname(os.path.dirname(os.path.abspath(__file__)))
REPO = os.environ.get("VERIF_REPO", "/repo")
SPEC = os.path.join(VERIF, "spec")
RUN = os.environ.get("VERIF_RUN", os.path.join(VERIF, "run"))          # scratch; overridable so that mutant runs do not disturb /verif/run
EVIDENCE = os.environ.get("VERIF_EVIDENCE", os.path.join(VERIF, "evidence"))
TLA_CP = "/opt/veriftools/tla/tla2tools.jar:/opt/veriftools/tla/CommunityModules-deps.jar"
NCPU = os.cpu_count() or 8

sys.path.insert(0, os.path.join(VERIF, "tools"))
import vbuild  # noqa: E402


class ToolFailure(Exception):
    """The checker itself failed (parse error, OOM, timeout): exit 2, never a violation."""


def build(variant="plain", targets=()):
    t0 = time.time()
    bdir = vbuild.build(variant, targets)
    return bdir, time.time() - t0


def rundir(cid, fresh=True):
    d = os.path.join(RUN, cid)
    if fresh and os.path.isdir(d):
        for n in os.listdir(d):
            if n.startswith("viol-"):
                continue
            p = os.path.join(d, n)
            shutil.rmtree(p, ignore_errors=True) if os.path.isdir(p) else os.remove(p)
    os.makedirs(d, exist_ok=True)
    return d


class TlcResult:
    def __init__(self):
        self.ok = False          # TLC finished without any error
        self.violated = None     # name of violated invariant / postcondition / property, if any
        self.generated = 0
        self.distinct = 0
        self.diameter = 0
        self.prints = []         # PrintT output lines
        self.out = ""
        self.rc = None
        self.wall = 0.0
        self.coverage = {}

    def __repr__(self):
        return f"<TLC ok={self.ok} violated={self.violated} gen={self.generated} dist={self.distinct} diam={self.diameter}>"


def tlc(spec, cfg, workdir, env=None, workers=1, timeout=900, xmx="2g", extra=(), simulate=None,
        dfs=False, coverage=False):
    """Run TLC on spec (module file name inside /verif/spec or absolute) with cfg.
    Returns TlcResult; raises ToolFailure on parse errors / crashes / timeouts."""
    os.makedirs(workdir, exist_ok=True)
    meta = os.path.join(workdir, "meta")
    shutil.rmtree(meta, ignore_errors=True)
    specpath = spec if os.path.isabs(spec) else os.path.join(SPEC, spec)
    cfgpath = cfg if os.path.isabs(cfg) else os.path.join(SPEC, cfg)
    jopts = ["-XX:+UseSerialGC" if workers == 1 else "-XX:+UseParallelGC", f"-Xmx{xmx}", "-Xss16m"]
    if dfs:
        jopts.append("-Dtlc2.tool.queue.IStateQueue=StateDeque")
    cmd = ["java"] + jopts + ["-cp", TLA_CP, "tlc2.TLC", "-workers", str(workers), "-metadir", meta,
                              "-config", cfgpath, "-noGenerateSpecTE"]
    if coverage:
        cmd += ["-coverage", "1"]
    if simulate:
        cmd += ["-simulate", simulate]
    cmd += list(extra) + [specpath]
    e = dict(os.environ)
    e.pop("JAVA_TOOL_OPTIONS", None)
    if env:
        e.update({k: str(v) for k, v in env.items()})
    t0 = time.time()
    try:
        p = subprocess.run(cmd, cwd=os.path.dirname(specpath), env=e, stdout=subprocess.PIPE,
                           stderr=subprocess.STDOUT, text=True, timeout=timeout)
    except subprocess.TimeoutExpired as ex:
        shutil.rmtree(meta, ignore_errors=True)
        out = ex.stdout.decode() if isinstance(ex.stdout, bytes) else (ex.stdout or "")
        r = TlcResult()
        r.out = out
        r.rc = "timeout"
        r.wall = time.time() - t0
        parse_tlc(r)
        r.ok = False
        r.timed_out = True
        return r
    shutil.rmtree(meta, ignore_errors=True)
    r = TlcResult()
    r.out = p.stdout
    r.rc = p.returncode
    r.wall = time.time() - t0
    r.timed_out = False
    parse_tlc(r)
    with open(os.path.join(workdir, "tlc.out"), "w") as f:
        f.write(p.stdout)
    return r


def parse_tlc(r):
    out = r.out
    m = None
    for m in re.finditer(r"(\d+) states generated, (\d+) distinct states found", out):
        pass
    if m:
        r.generated, r.distinct = int(m.group(1)), int(m.group(2))
    m = re.search(r"The depth of the complete state graph search is (\d+)", out)
    if m:
        r.diameter = int(m.group(1))
    # PrintT output: a tuple, possibly wrapped over several lines by TLC's pretty printer
    cur, depth = None, 0
    for line in out.split("\n"):
        if cur is None:
            if line.startswith("<<"):
                cur, depth = "", 0
            else:
                continue
        cur += (" " if cur else "") + line.strip()
        depth += line.count("<<") - line.count(">>")
        if depth <= 0:
            r.prints.append(cur)
            cur = None
    r.violated = None
    m = re.search(r"Invariant (\S+) is violated", out)
    if m:
        r.violated = m.group(1)
    m = re.search(r"The postcondition (\S+) was violated|Error: The postcondition|postcondition.*violated", out, re.I)
    if m and not r.violated:
        r.violated = "POSTCONDITION"
    if "Temporal properties were violated" in out:
        r.violated = r.violated or "TEMPORAL"
    m = re.search(r"Action property (\S+) .*is violated", out)
    if m:
        r.violated = r.violated or m.group(1)
    if re.search(r"Deadlock reached", out):
        r.violated = r.violated or "DEADLOCK"
    r.ok = ("Model checking completed. No error has been found" in out) or \
           (r.rc == 0 and "Finished in" in out and not r.violated)
    if not r.ok and not r.violated and not getattr(r, "timed_out", False):
        # parse error, evaluation error, OOM ... => tool failure unless caller expects it
        r.tool_error = True
    else:
        r.tool_error = False
    for m in re.finditer(r"^<(\w+) line (\d+), col \d+ to line \d+, col \d+ of module (\w+)>: (\d+):(\d+)", out, re.M):
        r.coverage[m.group(1)] = (int(m.group(4)), int(m.group(5)))


def pmap(fn, items, workers=None):
    workers = workers or NCPU
    with cf.ThreadPoolExecutor(max_workers=workers) as ex:
        return list(ex.map(fn, items))


def sh(cmd, timeout=600, **kw):
    return subprocess.run(cmd, stdout=subprocess.PIPE, stderr=subprocess.PIPE, text=True, timeout=timeout, **kw)


def load_known():
    p = os.path.join(VERIF, "known_findings.json")
    if not os.path.exists(p):
        return []
    return json.load(open(p)).get("findings", [])


class Report:
    """Collects coverage + violations for one check run and renders verdict/evidence."""

    def __init__(self, pid, tier, seed, level):
        self.pid, self.tier, self.seed, self.level = pid, tier, seed, level
        self.t0 = time.time()
        self.cov = {"samples": []}
        self.assumptions = []
        self.violations = []      # (key, description, replay_path)
        self.known_hits = []
        self.notes = []

    def add(self, key, n=1):
        self.cov[key] = self.cov.get(key, 0) + n

    def sample(self, s, cap=6):
        if len(self.cov["samples"]) < cap:
            self.cov["samples"].append(s)

    def violation(self, key, desc, files=None, text=None):
        """key identifies the failing input/history (matched against known findings)."""
        for k in load_known():
            if k.get("property") == self.pid and k.get("status") == "finding" and k.get("key") == key:
                if key not in [h[0] for h in self.known_hits]:
                    self.known_hits.append((key, k.get("what", desc)))
                return False
        if len(self.violations) >= 5:      # enough replay material; count the rest
            self.cov["further_violations"] = self.cov.get("further_violations", 0) + 1
            return True
        d = os.path.join(RUN, self.pid, f"viol-{len(self.violations)}")
        shutil.rmtree(d, ignore_errors=True)
        os.makedirs(d, exist_ok=True)
        with open(os.path.join(d, "README.txt"), "w") as f:
            f.write(f"property={self.pid}\nkey={key}\n{desc}\n")
            if text:
                f.write("\n" + text + "\n")
        for src in files or []:
            if os.path.exists(src):
                shutil.copy(src, d)
        self.violations.append((key, desc, d))
        return True

    def finish(self):
        wall = time.time() - self.t0
        ev = {
            "property_id": self.pid, "tier": self.tier, "seed": self.seed, "level": self.level,
            "coverage": self.cov, "assumptions": self.assumptions, "wall_s": round(wall, 2),
            "violations": len(self.violations),
        }
        if self.known_hits:
            ev["coverage"]["known_findings_reproduced"] = [k for k, _ in self.known_hits]
        if self.notes:
            ev["coverage"]["notes"] = self.notes
        os.makedirs(EVIDENCE, exist_ok=True)
        with open(os.path.join(EVIDENCE, f"{self.pid}.json"), "w") as f:
            json.dump(ev, f, indent=1, sort_keys=True)
            f.write("\n")
        for key, what in self.known_hits:
            print(f"KNOWN-FINDING: property={self.pid} {what} [{key}]")
        for key, desc, d in self.violations:
            print(f"VIOLATION property={self.pid} replay={d}")
            print(f"  {desc}")
        print(f"{self.pid} {self.tier}: {'FAIL' if self.violations else 'ok'} in {wall:.1f}s; "
              + ", ".join(f"{k}={v}" for k, v in self.cov.items() if isinstance(v, (int, float)) and not isinstance(v, bool)))
        return 1 if self.violations else 0


# ----------------------------------------------------------------------------------
# Linear trace validation (B1): each ND-JSON file is consumed line by line by a trace
# spec whose POSTCONDITION prints <<"REJECTED_AT", n>> when line n is not accepted.

def validate_linear(spec, cfg, files, workdir, timeout=1500, xmx="2g", jobs=None, env=None):
    """Returns list of dicts {file, ok, rejected_at, states, wall, out}.  Raises ToolFailure."""
    def one(i_f):
        i, f = i_f
        e = {"TRACE": f}
        if env:
            e.update(env)
        r = tlc(spec, cfg, os.path.join(workdir, f"tlc{i}"), env=e, timeout=timeout, xmx=xmx)
        d = {"file": f, "ok": r.ok, "rejected_at": None, "states": r.distinct, "generated": r.generated,
             "wall": r.wall, "res": r}
        if not r.ok:
            m = re.search(r'<<"REJECTED_AT", (\d+)>>', r.out)
            if m:
                d["rejected_at"] = int(m.group(1))
            elif getattr(r, "timed_out", False):
                raise ToolFailure(f"TLC timeout on {f}")
            else:
                raise ToolFailure(f"TLC failed on {f}:\n{r.out[-3000:]}")
        return d
    return pmap(one, list(enumerate(files)), workers=jobs or NCPU)


def diagnose_line(spec, diagcfg, tracefile, lineno, workdir, context_from=None, env=None):
    """Re-run one rejected line (plus the lines from context_from..lineno) under the DIAG config
    and return (mismatch_lines, snippet_path)."""
    lines = open(tracefile).read().split("\n")
    start = context_from if context_from is not None else lineno
    sel = lines[start - 1:lineno]
    snippet = os.path.join(workdir, f"reject_{os.path.basename(tracefile)}_{lineno}.ndjson")
    with open(snippet, "w") as f:
        f.write("\n".join(sel) + "\n")
    e = {"TRACE": snippet}
    if env:
        e.update(env)
    r = tlc(spec, diagcfg, os.path.join(workdir, "diag"), env=e, timeout=600)
    mism = [p for p in r.prints if "MISMATCH" in p]
    return mism, snippet, r


def linear_check(rep, spec, cfg, diagcfg, files, wd, context_marker=None, meta_line=True, timeout=7000, keyfn=None):
    """Validate files with the trace spec; on rejection diagnose (DIAG config) the segment from the last
    line starting with context_marker (or just the rejected line) and register a violation."""
    res = validate_linear(spec, cfg, files, wd, timeout=timeout)
    # which trace-spec actions the implementation traces exercised (an action that never fires was never checked)
    hist = rep.cov.setdefault("trace_events_by_name", {})
    ev = re.compile(r'"e":\s*"([A-Za-z0-9_]+)"')
    for f in files:
        with open(f) as fh:
            for line in fh:
                m = ev.search(line[:400]) or ev.search(line)
                if m:
                    hist[m.group(1)] = hist.get(m.group(1), 0) + 1
    for d in res:
        rep.add("states", d["states"])
        rep.add("transitions", max(d["generated"] - 1, 0))
        if d["ok"]:
            rep.add("traces_validated_against_impl")
            continue
        ln = d["rejected_at"]
        lines = open(d["file"]).read().split("\n")
        start = ln
        if context_marker:
            while start > 1 and not lines[start - 1].startswith(context_marker):
                start -= 1
        sel = ([lines[0]] if meta_line and start > 1 else []) + lines[start - 1:ln]
        snippet = os.path.join(wd, f"reject_{os.path.basename(d['file'])}_{ln}.ndjson")
        with open(snippet, "w") as f:
            f.write("\n".join(sel) + "\n")
        r = tlc(spec, diagcfg, os.path.join(wd, "diag"), env={"TRACE": snippet}, timeout=900)
        mism = [p for p in r.prints if "MISMATCH" in p]
        names = sorted(set(re.findall(r'"MISMATCH",\s*(?:<<\s*)?"([^"]+)"', " ".join(mism))))
        key = keyfn(lines[ln - 1], names) if keyfn else "mismatch:" + ";".join(names)[:120] + ":" + lines[ln - 1][:120]
        rep.violation(key, f"{spec} rejects line {ln} of {d['file']} ({', '.join(names) or 'no step enabled'}): "
                      + "; ".join(m[:200] for m in mism[:2]), files=[snippet], text="\n".join(m[:3000] for m in mism[:20]))
    return res


def replay_linear(pid, spec, diagcfg, path):
    for s in [f for f in os.listdir(path) if f.endswith(".ndjson")]:
        r = tlc(spec, diagcfg, os.path.join(RUN, pid, "replay"), env={"TRACE": os.path.join(path, s)})
        print("\n".join(r.prints) or "(no mismatch reproduced)")
    return 0
