"""Seeded generation and execution of single-search UCI sessions (shared by C03, C04, C13...)."""
import json
import os
import random
import time

import uci
import vlib

NETS = ["rand1", "rand2", "material", "extreme"]


def corpus(bdir, seed, count):
    p = vlib.sh([os.path.join(bdir, "h_fens"), str(seed), str(count)], timeout=600)
    if p.returncode != 0:
        raise vlib.ToolFailure("h_fens failed: " + p.stderr[-500:])
    return [json.loads(l) for l in p.stdout.strip().split("\n") if l]


def legal_moves_uci(bdir, fen):
    """Not available without a chess library in python: searchmoves subsets are drawn from a short probe search instead."""
    raise NotImplementedError


def gen_session(rnd, root, tier, allow_threads=True):
    """Returns dict(options, limit cmd, kind, use_hist, searchmoves_n, net)."""
    o = {}
    if rnd.random() < 0.5:
        o["Hash"] = rnd.choice([1, 1, 2, 4, 16, 64])
    if allow_threads and rnd.random() < 0.4:
        o["Threads"] = rnd.choice([2, 2, 3, 4, 8])
    if rnd.random() < 0.35:
        o["MultiPV"] = rnd.choice([2, 3, 4, 5])
    r = rnd.random()
    if r < 0.15:
        o["Strength"] = rnd.choice([0, 0, 1, 100, 500, 900, 999])
    elif r < 0.22:
        o["UCI_LimitStrength"] = "true"
        o["UCI_Elo"] = rnd.choice([-625, 0, 800, 1500, 2200, 2900])
    if rnd.random() < 0.08:
        o["MaxNPS"] = rnd.choice([2000, 20000, 200000])
    if rnd.random() < 0.15:
        o["UseNullMove"] = "false"
    if rnd.random() < 0.15:
        o["UCI_AnalyseMode"] = "true"
    if rnd.random() < 0.2:
        o["Contempt"] = rnd.choice([-2000, -200, -50, 50, 200, 2000])
    kinds = ["depth"] * 5 + ["nodes"] * 2 + ["movetime", "clock", "mate", "infinite", "ponder"]
    kind = rnd.choice(kinds)
    maxd = 7 if tier == "quick" else 12
    if kind == "depth":
        go = f"depth {rnd.randint(1, maxd)}"
    elif kind == "nodes":
        go = f"nodes {rnd.choice([1, 10, 100, 1000, 5000, 20000])}"
    elif kind == "movetime":
        go = f"movetime {rnd.choice([1, 5, 20, 60, 150])}"
    elif kind == "clock":
        t = rnd.choice([1, 10, 100, 500, 2000])
        go = f"wtime {t} btime {rnd.choice([1, 50, 2000])} winc {rnd.choice([0, 0, 10])} binc 0"
        if rnd.random() < 0.5:
            go += f" movestogo {rnd.choice([1, 2, 10, 40])}"
    elif kind == "mate":
        go = f"mate {rnd.randint(1, 3)}"
    elif kind == "ponder":
        go = f"ponder depth {rnd.randint(1, 5)}"
    else:
        go = "infinite"
    stop_after = rnd.choice([0.0, 0.01, 0.05, 0.15])
    if root.get("cat") == "tbroot":
        # unlimited search on a pawnless root of at most four men: the engine first builds a tablebase inside the hash table (needs
        # Hash >= 8) and then extends its mate lines from it; the search is stopped half a second after its first pv line
        kind, go, stop_after = "infinite", "infinite", "pv"
        o["Hash"] = rnd.choice([16, 64])
        o.pop("MaxNPS", None); o.pop("UCI_LimitStrength", None); o.pop("UCI_Elo", None); o.pop("Strength", None)
    return {"options": o, "go": go, "kind": kind, "use_hist": rnd.random() < 0.5,
            # an earlier search in the same process that was restricted to one root move of ANOTHER position: nothing of it may leak
            "prior_searchmoves": rnd.random() < 0.25, "ponder_end": rnd.choice(["stop", "ponderhit"]),
            "net": rnd.choice(NETS), "searchmoves": rnd.random() < (0.8 if root.get("cat") == "promo" else 0.25) and root.get("cat") != "tbroot", "stop_after": stop_after}


def run_session(bdir, root, s, rnd_seed, timeout=90, extra_env=None):
    """Runs one search.  Returns dict(events=[trace records], status, log)."""
    rnd = random.Random(rnd_seed)
    eng = uci.Engine(os.path.join(bdir, "texel-" + s["net"]), env=extra_env)
    ev = []
    status = "ok"
    try:
        for k, v in s["options"].items():
            eng.send(f"setoption name {k} value {v}")
        _, ok = eng.isready()
        if not ok:
            return {"events": [], "status": "no-readyok", "log": eng.log}
        if s["use_hist"] and root["hist"]:
            start, hist = root["start"], root["hist"]
        else:
            start, hist = root["fen"], []
        if s.get("prior_searchmoves"):
            eng.send("position startpos")
            eng.send("go depth 1 searchmoves e2e4")
            eng.read_until(lambda l: l.startswith("bestmove"), 180)
        pos_cmd = f"position fen {start}" + (" moves " + " ".join(hist) if hist else "")
        sf = uci.fen_to_fields(start)
        wtm_root = sf["wtm"] if len(hist) % 2 == 0 else not sf["wtm"]
        eng.send(pos_cmd)
        smoves = []
        if s["searchmoves"] and root["nlegal"] > 1:
            # learn some legal root moves from a MultiPV probe (their legality is verified by the spec)
            eng.send("setoption name MultiPV value 6")
            eng.send("go depth 1")
            lines, ok = eng.read_until(lambda l: l.startswith("bestmove"), 180)
            cand = []
            for l in lines:
                d = uci.parse_info(l, wtm_root)
                if d and d.get("pvs"):
                    if d["pvs"][0] not in cand:
                        cand.append(d["pvs"][0])
            eng.send(f"setoption name MultiPV value {s['options'].get('MultiPV', 1)}")
            eng.isready()
            if cand:
                rnd.shuffle(cand)
                smoves = cand[:rnd.randint(1, len(cand))]
                promos = [m for m in cand if len(m) == 5]
                if promos:      # a partial set of the four promotions of one pawn move
                    base = rnd.choice(promos)[:4]
                    smoves = [m for m in smoves if m[:4] != base] + [base + c for c in rnd.sample("qrbn", rnd.randint(1, 3))]
        go = "go " + s["go"] + ((" searchmoves " + " ".join(smoves)) if smoves else "")
        ev.append({"e": "Root", "fen": root["fen"], "start": sf, "hist": uci.mv_list(hist, sf["wtm"]),
                   "searchmoves": [uci.uci_to_mv(m, wtm_root) for m in smoves],
                   "multipv": int(s["options"].get("MultiPV", 1)), "go": go, "options": s["options"], "net": s["net"]})
        eng.send(go)
        prelines = []
        if s["kind"] == "infinite" and s["stop_after"] == "pv":
            prelines, _ = eng.read_until(lambda l: l.startswith("info depth") and " pv " in l, 40)
            time.sleep(0.5)
            eng.send("stop")
        elif s["kind"] == "infinite":
            time.sleep(s["stop_after"])
            eng.send("stop")
        elif s["kind"] == "ponder":
            time.sleep(s["stop_after"])
            eng.send(s.get("ponder_end", "stop"))
        # Searches throttled by strength options (MaxNPS 2000, UCI_Elo -625, ...) or slowed down by a loaded machine may need minutes for a
        # depth limit: after a grace period the driver sends 'stop' (as a GUI user would) - the answer must be well-formed all the same.
        lines, ok = eng.read_until(lambda l: l.startswith("bestmove"), 12)
        lines = prelines + lines
        if not ok:
            eng.send("stop")
            more, ok = eng.read_until(lambda l: l.startswith("bestmove"), timeout)
            lines += more
        if not ok:
            status = "no-bestmove"
        for l in lines:
            if l.startswith("bestmove"):
                tok = l.split()
                m = tok[1] if len(tok) > 1 else "0000"
                pm = tok[3] if len(tok) > 3 and tok[2] == "ponder" else None
                ev.append({"e": "Best", "line": l, "null": m == "0000", "m": uci.uci_to_mv(m, wtm_root),
                           "hasPonder": pm is not None, "ponder": uci.uci_to_mv(pm, not wtm_root) if pm else [0, 0, 0]})
            else:
                d = uci.parse_info(l, wtm_root)
                if d:
                    d.pop("pvs", None)
                    d["e"] = "Info"
                    d["line"] = l
                    ev.append(d)
        rc = eng.quit()
        if rc != 0 and status == "ok":
            status = f"exit-{rc}"
    finally:
        eng.kill()
    return {"events": ev, "status": status, "log": eng.log}
