#!/bin/sh
# Runs the repository's pinned test suite with the TEXEL_VERIF guard OFF (the default build).
set -e
cd /repo
cmake -G Ninja -B _build >/dev/null
cmake --build _build >/dev/null
ctest --test-dir _build -j8 --timeout 900
