"""Scripted, schedule-perturbed runs of the hooked engine (C05, C06, C10): drives stdin with pacing, records the hook trace."""
import json
import os
import random
import subprocess
import threading
import time

FENS = ["startpos", "fen r1bq1rk1/pp2bppp/2n1pn2/2pp4/3P1B2/2PBPN2/PP1N1PPP/R2QK2R w KQ - 0 8", "fen 8/2p5/3p4/KP5r/1R3p1k/8/4P1P1/8 w - - 0 1",
        "fen 6k1/5ppp/8/8/8/8/5PPP/4R1K1 w - - 0 1", "fen 7k/5Q2/6K1/8/8/8/8/8 w - - 0 1", "fen 8/8/8/3k4/8/3K4/4R3/8 w - - 0 1"]


def gen_script(rnd, kind=None):
    """Returns list of (command, delay_before_seconds); 'quit' is appended by the runner."""
    kind = kind or rnd.choice(["go_finish", "go_stop", "ponder_hit", "ponder_stop", "back_to_back", "threads_between", "quit_during", "mixed", "mixed"])
    s = []
    thr = rnd.choice([1, 2, 2, 3, 4, 4, 6, 8])
    if kind == "deep_tree":
        # 22 threads and more make WorkerThread::createWorkers build a tree of depth three (a helper whose child has a child): commands
        # going down and results / acknowledgements coming up then cross in the middle of the tree
        thr = rnd.choice([22, 24, 27])
    s.append((f"setoption name Threads value {thr}", 0))
    if rnd.random() < 0.3:
        s.append(("isready", 0))

    def pos():
        return ("position " + rnd.choice(FENS), 0)

    def d():
        return rnd.choice([0, 0, 0.001, 0.003, 0.01, 0.03, 0.08])
    if kind == "go_finish":
        for _ in range(rnd.randint(1, 3)):
            s += [pos(), (f"go depth {rnd.randint(1, 6)}", d())]
            s.append(("isready", 0.15))
    elif kind == "go_stop":
        for _ in range(rnd.randint(1, 3)):
            s += [pos(), ("go infinite", d()), ("stop", d())]
    elif kind == "ponder_hit":
        for _ in range(rnd.randint(1, 2)):
            s += [pos(), (rnd.choice(["go ponder depth 4", "go ponder wtime 200 btime 200", "go ponder movetime 30"]), d()), ("ponderhit", d())]
            s.append(("stop", 0.1))
    elif kind == "ponder_stop":
        s += [pos(), ("go ponder depth 5", d()), ("stop", d())]
    elif kind == "back_to_back":
        for _ in range(rnd.randint(2, 5)):
            s += [pos(), (rnd.choice(["go depth 4", "go infinite", "go movetime 20", "go ponder depth 3", "go nodes 3000"]), d())]
    elif kind == "threads_between":
        s += [pos(), ("go depth 4", d()), (f"setoption name Threads value {rnd.choice([1, 2, 3, 5])}", d()), pos(), ("go depth 4", d()),
              (f"setoption name Threads value {rnd.choice([1, 2, 4])}", d()), ("go infinite", d()), ("stop", d())]
    elif kind == "deep_tree":
        for _ in range(rnd.randint(4, 7)):
            s += [pos(), (rnd.choice(["go infinite", "go depth 5", "go movetime 20", "go nodes 20000"]), d()),
                  (rnd.choice(["stop", "stop", "isready"]), rnd.choice([0.002, 0.01, 0.03, 0.08]))]
    elif kind == "quit_during":
        s += [pos(), (rnd.choice(["go infinite", "go depth 9", "go ponder depth 6"]), d())]
    else:
        for _ in range(rnd.randint(3, 9)):
            c = rnd.choice(["go depth 3", "go infinite", "stop", "ponderhit", "isready", "go ponder depth 4", "setoption name Hash value 2",
                            "ucinewgame", "go movetime 15", "setoption name MultiPV value 2", f"setoption name Threads value {rnd.choice([1, 2, 3])}"])
            if c.startswith("go"):
                s.append(pos())
            s.append((c, d()))
    return kind, s


ENUM_ALPHABET = ["go depth 3", "go infinite", "go ponder depth 4", "go movetime 15", "stop", "ponderhit", "isready",
                 "setoption name Threads value 3", "ucinewgame"]


def enum_scripts(maxlen):
    """Every command sequence of length 1..maxlen over ENUM_ALPHABET (each 'go' preceded by a position command): the short
    orders a random generator meets only by luck (stop without search, ponderhit twice, go while pondering, ...)."""
    import itertools
    out = []
    for n in range(1, maxlen + 1):
        for seq in itertools.product(range(len(ENUM_ALPHABET)), repeat=n):
            out.append(seq)
    return out


def enum_script(seq, rnd):
    s = [(f"setoption name Threads value {rnd.choice([1, 2, 4])}", 0)]
    for k in seq:
        c = ENUM_ALPHABET[k]
        dly = rnd.choice([0, 0, 0, 0.002, 0.01, 0.04])
        if c.startswith("go"):
            s.append(("position " + rnd.choice(FENS), dly))
            dly = 0
        s.append((c, dly))
    return "enum", s


OPTIONS = [("Threads", ["1", "2", "3", "0", "600", "abc"]), ("Hash", ["1", "4", "32", "0", "-5", "99999999", "x"]), ("MultiPV", ["1", "2", "5", "0", "999"]),
           ("Ponder", ["true", "false", "maybe"]), ("UCI_AnalyseMode", ["true", "false"]), ("OwnBook", ["true", "false"]), ("BookFile", ["", "/nonexistent.bin"]),
           ("UseNullMove", ["true", "false"]), ("AnalysisAgeHash", ["true", "false"]), ("Clear Hash", [""]), ("Strength", ["0", "500", "1000", "1001", "-1"]),
           ("MaxNPS", ["0", "5000", "-3"]), ("UCI_LimitStrength", ["true", "false"]), ("UCI_Elo", ["-625", "1500", "2900", "5000"]),
           ("Contempt", ["0", "50", "-2000", "2001"]), ("AnalyzeContempt", ["0", "-30"]), ("AutoContempt", ["true", "false"]), ("ContemptFile", ["", "/nonexistent"]),
           ("UCI_Opponent", ["none none human Bob", "GM 2800 computer X"]), ("GaviotaTbPath", ["", "/nonexistent"]), ("GaviotaTbCache", ["1", "64"]),
           ("SyzygyPath", ["", "/nonexistent"]), ("MinProbeDepth", ["0", "1", "100", "101"]), ("BufferTime", ["1", "1000", "10000", "0"]),
           ("NoSuchOption", ["1"])]


def gen_session(rnd, maxlen=60):
    """A UCI session over the whole command alphabet (C05): returns (script, ends_with_eof)."""
    n = rnd.randint(3, maxlen)
    s = []
    if rnd.random() < 0.7:
        s.append(("uci", 0))
    if rnd.random() < 0.15:
        # pondering on a position of the built-in opening book with the book enabled: the book move must be held back like any other
        s.append(("setoption name OwnBook value true", 0))
        s.append(("position startpos" + rnd.choice(["", " moves e2e4", " moves e2e4 e7e5", " moves d2d4 d7d5"]), 0))
        s.append((rnd.choice(["go ponder wtime 1000 btime 1000", "go ponder depth 4", "go ponder movetime 50", "go infinite"]), 0))
        s.append((rnd.choice(["isready", "isready", "setoption name Hash value 4"]), rnd.choice([0.02, 0.1])))
        s.append((rnd.choice(["ponderhit", "stop"]), rnd.choice([0.0, 0.05])))
    if rnd.random() < 0.2:
        # a limited search of some kind, answered by itself, then an unlimited one that is left alone for a while: no limit of the
        # earlier 'go' may end the later search
        s.append(("position " + rnd.choice(FENS), 0))
        s.append((rnd.choice(["go nodes 500", "go nodes 3000", "go depth 2", "go movetime 10", "go mate 1", "go wtime 20 btime 20", "go depth 3 nodes 800"]), 0))
        s.append(("isready", 0.25))
        s.append(("position " + rnd.choice(FENS), 0))
        s.append((rnd.choice(["go infinite", "go infinite", "go ponder", "go ponder wtime 1000 btime 1000"]), 0))
        s.append((rnd.choice(["isready", "setoption name Hash value 4"]), 0.3))
        s.append(("stop", rnd.choice([0.0, 0.05])))
    for _ in range(n):
        r = rnd.random()
        dly = rnd.choice([0, 0, 0, 0.002, 0.01, 0.03])
        if r < 0.22:
            base = rnd.choice(FENS)
            moves = rnd.choice(["", "", " moves e2e4", " moves e2e4 e7e5 g1f3"]) if base == "startpos" else ""
            s.append(("position " + base + moves, dly))
            go = rnd.choice(["go depth 1", "go depth 4", "go depth 6", "go nodes 2000", "go movetime 20", "go wtime 300 btime 300 winc 10 binc 10",
                             "go wtime 50 btime 50 movestogo 3", "go wtime 300 btime 300 winc 1000 binc 1000", "go wtime 5000 btime 150 winc 2000 binc 2000",
                             "go wtime 1 btime 1 winc 0 binc 0", "go wtime 80 btime 80 winc 500 binc 500 movestogo 1", "go mate 2", "go infinite", "go ponder depth 4", "go ponder wtime 100 btime 100",
                             "go depth 3 searchmoves e2e4 d2d4", "go", "go depth", "go wtime", "go infinite searchmoves"])
            s.append((go, dly))
        elif r < 0.34:
            s.append(("stop", dly))
        elif r < 0.42:
            s.append(("ponderhit", dly))
        elif r < 0.56:
            s.append(("isready", dly))
        elif r < 0.78:
            name, vals = rnd.choice(OPTIONS)
            v = rnd.choice(vals)
            s.append((f"setoption name {name}" + (f" value {v}" if v != "" or rnd.random() < 0.5 else ""), dly))
        elif r < 0.83:
            s.append(("ucinewgame", dly))
        elif r < 0.87:
            s.append(("uci", dly))
        elif r < 0.93:
            s.append((rnd.choice(["", "   ", "xyzzy", "go2 depth 3", "position", "position fen", "setoption", "setoption name", "debug on", "register later",
                                  "position fen 8/8/8/8/8/8/8/8 w - - 0 1", "position startpos moves e2e5", "isready now"]), dly))
        else:
            s.append(("stop", dly))
    return s, rnd.random() < 0.25


def run_script(binary, script, sched_seed, trace_path, clock=None, watchdog=40, final_wait=0.0, eof=False, extra_env=None):
    env = dict(os.environ, VERIF_TRACE=trace_path, VERIF_SCHED=str(sched_seed), VERIF_WATCHDOG=str(watchdog))
    if clock:
        env["VERIF_CLOCK"] = str(clock)
    if extra_env:
        env.update(extra_env)
    if not trace_path:
        env.pop("VERIF_TRACE", None)
    if sched_seed is None:
        env.pop("VERIF_SCHED", None)
    p = subprocess.Popen([binary], stdin=subprocess.PIPE, stdout=subprocess.PIPE, stderr=subprocess.PIPE, text=True, bufsize=1, env=env)
    out = []
    t = threading.Thread(target=lambda: out.extend(l.rstrip("\n") for l in p.stdout), daemon=True)
    t.start()
    try:
        for cmd, delay in script:
            if delay:
                time.sleep(delay)
            p.stdin.write(cmd + "\n")
            p.stdin.flush()
        if final_wait:
            time.sleep(final_wait)
        if eof:
            p.stdin.close()
        else:
            p.stdin.write("quit\n")
            p.stdin.flush()
    except (BrokenPipeError, OSError):
        pass
    try:
        rc = p.wait(timeout=watchdog + 10)
    except subprocess.TimeoutExpired:
        p.kill()
        rc = "hang"
    t.join(timeout=5)
    err = p.stderr.read()[-2000:] if p.stderr else ""
    return rc, out, err


def annotate(body):
    """Add the first token of each command line to Cmd events (TLC has no string splitting)."""
    out = []
    for line in body.split("\n"):
        if '"e":"Cmd"' in line:
            try:
                d = json.loads(line)
                tok = d.get("txt", "").split()
                d["cmd0"] = tok[0] if tok else ""
                d["hold"] = 1 if (tok and tok[0] == "go" and ("infinite" in tok[1:] or "ponder" in tok[1:])) else 0
                line = json.dumps(d)
            except Exception:
                pass
        out.append(line)
    return "\n".join(out)
