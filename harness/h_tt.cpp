// C08 trace recorder for the transposition table.
//   h_tt hammer <seed> <threads> <entries> <seconds*10> <out>   concurrent stores/probes of catalogue units on few buckets; distinct hits logged
//   h_tt index  <seed> <out>                                     index records for many table sizes and boundary keys
//   h_tt life   <seed> <histories> <out>                         call histories of the on-demand tablebase life cycle (spec/TBLife.tla)
//   h_tt misc   <seed> <out>                                     mate-score ply shift records; tablebase region isolation under hash traffic
#include "hcommon.hpp"
#include "transpositionTable.hpp"
#include "constants.hpp"
#include "verifhooks.hpp"
#include <atomic>
#include <fstream>
#include <iostream>
#include <mutex>
#include <set>
#include <thread>
#include <tuple>

using namespace vh;

struct Unit { U64 key; int from, to, promo, score, depth, type, eval; };

static std::string unitJ(const Unit& u) {
    char b[256];
    snprintf(b, sizeof(b), "{\"key\":%s,\"mv\":[%d,%d,%d],\"score\":%d,\"depth\":%d,\"type\":%d,\"eval\":%d}", hex64(u.key).c_str(), u.from, u.to, u.promo,
             u.score, u.depth, u.type, u.eval);
    return b;
}

int main(int argc, char** argv) {
    if (argc < 3) return 2;
    std::string mode = argv[1];
    U64 seed = std::stoull(argv[2]);
    vh::init();
    Random rnd(seed, 0xC08);
    if (mode == "hammer") {
        int nThreads = atoi(argv[3]);
        U64 entries = std::stoull(argv[4]);
        int deci = atoi(argv[5]);
        std::ofstream os(argv[6]);
        TranspositionTable tt(entries);
        // catalogue: 48 keys that fall into at most 3 buckets, 6 distinct units per key
        std::vector<U64> keys;
        std::set<size_t> buckets;
        while (keys.size() < 48) {
            U64 k = rnd.nextU64();
            size_t b = tt.verifIndex(k);
            if (buckets.size() < 3) buckets.insert(b);
            if (buckets.count(b)) keys.push_back(k);
        }
        std::vector<Unit> cat;
        size_t keyNo = 0;
        for (U64 k : keys) {
            // every sixth key is only ever stored with the empty move (fail-low / stand-pat stores of the search): insert() keeps the move
            // of an entry it overwrites only if that entry belongs to the SAME key, so a hit for such a key must carry the empty move
            const bool quietKey = (keyNo++ % 6) == 5;
            for (int v = 0; v < 6; v++) {
                Unit u;
                u.key = k;
                u.from = rnd.nextInt(64); do { u.to = rnd.nextInt(64); } while (u.to == u.from);
                u.promo = rnd.nextInt(3) == 0 ? 2 + rnd.nextInt(4) : 0;
                if (quietKey) { u.from = 0; u.to = 0; u.promo = 0; }
                u.score = rnd.nextInt(20000) - 10000;        // non-mate scores: no ply shift involved
                u.depth = rnd.nextInt(300);
                if (rnd.nextInt(8) == 0) u.depth = -1 - rnd.nextInt(7);      // quiescence-node stores carry a negative remaining depth
                u.type = 1 + rnd.nextInt(3);
                u.eval = rnd.nextInt(30000) - 15000;
                cat.push_back(u);
            }
        }
        os << "{\"e\":\"Meta\",\"check\":\"C08\",\"mode\":\"hammer\",\"threads\":" << nThreads << ",\"entries\":" << entries << "}\n";
        os << "{\"e\":\"Units\",\"units\":[";
        for (size_t i = 0; i < cat.size(); i++) os << (i ? "," : "") << unitJ(cat[i]);
        os << "]}\n";
        std::mutex m;
        std::set<std::tuple<U64,int,int,int,int,int,int,int>> hits;
        std::atomic<bool> stop{false};
        std::atomic<long> nStores{0}, nProbes{0}, nHits{0};
        auto worker = [&](int id) {
            Random r(seed * 977 + id, id);
            std::set<std::tuple<U64,int,int,int,int,int,int,int>> local;
            while (!stop) {
                for (int k = 0; k < 2000; k++) {
                    const Unit& u = cat[r.nextInt((int)cat.size())];
                    int act = r.nextInt(10);
                    if (act < 5) {
                        Move mv(Square(u.from), Square(u.to), u.promo);
                        mv.setScore(u.score);
                        tt.insert(u.key, mv, u.type, 0, u.depth, u.eval);
                        nStores++;
                    } else if (act < 9 || id != 0) {
                        TranspositionTable::TTEntry ent;
                        // one probe in six asks for a key that was never stored but differs from a stored one only where the slot's
                        // second word keeps its bookkeeping (generation, bits 42..45) or in a single bit: it must miss
                        U64 pk = u.key;
                        int nb = r.nextInt(12);
                        if (nb == 0) pk ^= (U64)(1 + r.nextInt(15)) << 42;
                        else if (nb == 1) pk ^= 1ULL << r.nextInt(64);
                        tt.probe(pk, ent);
                        nProbes++;
                        if (ent.getType() != TType::T_EMPTY) {
                            Move mv; ent.getMove(mv);
                            local.insert(std::make_tuple(ent.getKey(), mv.from().asInt(), mv.to().asInt(), mv.promoteTo(), ent.getScore(0), ent.getDepth(),
                                                         ent.getType(), ent.getEvalScore()));
                            nHits++;
                        }
                    } else if (r.nextInt(200) == 0) {
                        tt.nextGeneration();
                    }
                }
            }
            std::lock_guard<std::mutex> L(m);
            hits.insert(local.begin(), local.end());
        };
        std::vector<std::thread> th;
        for (int i = 0; i < nThreads; i++) th.emplace_back(worker, i);
        std::this_thread::sleep_for(std::chrono::milliseconds(deci * 100));
        stop = true;
        for (auto& t : th) t.join();
        for (auto& h : hits) {
            Unit u{std::get<0>(h), std::get<1>(h), std::get<2>(h), std::get<3>(h), std::get<4>(h), std::get<5>(h), std::get<6>(h), std::get<7>(h)};
            os << "{\"e\":\"Hit\",\"u\":" << unitJ(u) << "}\n";
        }
        printf("{\"stores\":%ld,\"probes\":%ld,\"hits\":%ld,\"distinct_hits\":%zu,\"units\":%zu}\n", nStores.load(), nProbes.load(), nHits.load(), hits.size(), cat.size());
        return 0;
    }
    if (mode == "index") {
        std::ofstream os(argv[3]);
        os << "{\"e\":\"Meta\",\"check\":\"C08\",\"mode\":\"index\"}\n";
        std::vector<U64> sizes;
        for (int mb : {1, 2, 3, 4, 5, 7, 8, 12, 16, 24, 32, 48, 64, 100, 128, 192, 256}) sizes.push_back((U64)mb * (1 << 20) / 16);
        for (U64 n : {512ULL, 516ULL, 1000ULL, 1024ULL, 4092ULL, 32768ULL, 65532ULL, 65536ULL + 4, 1000003ULL, 8191ULL * 4}) sizes.push_back(n);
        for (int i = 0; i < 12; i++) sizes.push_back(512 + (rnd.nextU64() % (1ULL << (10 + rnd.nextInt(14)))));
        long recs = 0;
        TranspositionTable tt(512);
        for (U64 n : sizes) {
            tt.reSize(n);
            for (int withTb = 0; withTb < 2; withTb++) {
                if (withTb) {
                    if (n * 16 < 8 * 1024 * 1024) continue;
                    RelaxedShared<S64> t(-1);
                    Position p = TextIO::readFEN("8/8/8/3k4/8/3K4/4R3/8 w - - 0 1");
                    if (!tt.updateTB(p, t)) continue;
                }
                auto st = tt.verifState();
                std::vector<U64> highs = {0, 1, 2, 255, 256, 32767, 32768, 65534, 65535};
                for (int i = 0; i < 24; i++) highs.push_back(rnd.nextU64() & 0xffff);
                for (U64 hi : highs) {
                    std::vector<U64> lows = {0, st.usedSizeMask, st.usedSizeMask >> 1, ~0ULL & 0xffffffffffffULL, 3, 4};
                    for (int i = 0; i < 3; i++) lows.push_back(rnd.nextU64() & 0xffffffffffffULL);
                    for (U64 lo : lows) {
                        U64 key = (hi << 48) | lo;
                        size_t idx = tt.verifIndex(key);
                        os << "{\"e\":\"Idx\",\"tableSize\":" << st.tableSize << ",\"usedSize\":" << st.usedSize << ",\"top\":" << st.usedSizeTopBits
                           << ",\"shift\":" << st.usedSizeShift << ",\"keyHi\":" << hi << ",\"lowMasked\":" << (key & st.usedSizeMask)
                           << ",\"maskOk\":" << ((st.usedSizeMask == (((1ULL << st.usedSizeShift) - 1) & ~3ULL)) ? "true" : "false")
                           << ",\"idx\":" << idx << ",\"tb\":" << (st.tbResident ? "true" : "false") << "}\n";
                        recs++;
                    }
                }
                if (withTb) tt.clear();
            }
        }
        printf("{\"index_records\":%ld,\"sizes\":%zu}\n", recs, sizes.size());
        return 0;
    }
    if (mode == "misc") {
        std::ofstream os(argv[3]);
        os << "{\"e\":\"Meta\",\"check\":\"C08\",\"mode\":\"misc\"}\n";
        long n = 0;
        TranspositionTable tt(4096);
        for (int i = 0; i < 4000; i++) {
            int kind = rnd.nextInt(3);
            int score = kind == 0 ? rnd.nextInt(30000) - 15000 : (kind == 1 ? 32000 - rnd.nextInt(600) : -(32000 - rnd.nextInt(600)));
            int p = rnd.nextInt(120), q = rnd.nextInt(120);
            U64 key = rnd.nextU64();
            Move mv(Square(1), Square(2), 0);
            mv.setScore(score);
            tt.insert(key, mv, TType::T_EXACT, p, 5, 0);
            TranspositionTable::TTEntry ent;
            tt.probe(key, ent);
            // the search re-stores an entry it is about to work on with the busy flag set, at whatever ply the node has there:
            // the stored score must survive that unchanged
            int busy = rnd.nextInt(3);
            for (int b = 0; b < busy && ent.getType() != TType::T_EMPTY; b++) {
                tt.setBusy(ent, rnd.nextInt(120));
                tt.probe(key, ent);
            }
            bool hit = ent.getType() != TType::T_EMPTY;
            os << "{\"e\":\"Shift\",\"busy\":" << busy << ",\"score\":" << score << ",\"p\":" << p << ",\"q\":" << q << ",\"hit\":" << (hit ? "true" : "false")
               << ",\"got\":" << (hit ? ent.getScore(q) : 0) << "}\n";
            n++;
        }
        // tablebase region isolation: bytes of the reserved region AND the answers of the resident table before / after hash traffic
        // (3-man tables and a 4-man table, which fills the whole reserved region; table sizes of an even and an odd number of MB)
        for (int round = 0; round < 4; round++) {
            TranspositionTable t2(512);
            t2.reSize(round == 0 ? (1 << 20) : round == 1 ? (1 << 19) + 4096 : round == 2 ? (1 << 20) : (1 << 19) + (1 << 16));
            RelaxedShared<S64> lim(-1);
            const char* rootFen = round == 0 ? "8/8/8/3k4/8/3K4/4Q3/8 w - - 0 1" : round == 1 ? "8/8/8/3k4/8/3K4/4R3/8 b - - 0 1" : "8/1r6/8/3k4/8/3K4/4Q3/8 w - - 0 1";
            Position p = TextIO::readFEN(rootFen);
            bool ok = t2.updateTB(p, lim);
            auto st = t2.verifState();
            U64 bytes = t2.byteSize();
            U64 tbBytes = 5 * 1024 * 1024;
            auto checksum = [&]() { U64 h = 1469598103934665603ULL; for (U64 i = bytes - tbBytes; i < bytes; i++) { h ^= t2.getByte(i); h *= 1099511628211ULL; } return h; };
            // sample of positions of the table's class (same men as the root on random squares)
            std::vector<Position> sample;
            std::vector<int> men;
            for (int sq = 0; sq < 64; sq++) if (p.getPiece(Square(sq)) != Piece::EMPTY) men.push_back(p.getPiece(Square(sq)));
            for (int t = 0; t < 40000 && sample.size() < 3000; t++) {
                Position q;
                bool clash = false;
                std::set<int> used;
                for (int m : men) { int sq = rnd.nextInt(64); if (used.count(sq)) { clash = true; break; } used.insert(sq); q.setPiece(Square(sq), m); }
                if (clash) continue;
                q.setWhiteMove(rnd.nextInt(2) == 0);
                if (BitBoard::getKingDistance(q.wKingSq(), q.bKingSq()) < 2) continue;
                { Position c(q); c.setWhiteMove(!q.isWhiteMove()); if (MoveGen::inCheck(c)) continue; }
                sample.push_back(q);
            }
            auto answers = [&]() { std::vector<int> v; for (const Position& q : sample) { int sc = 0; bool f = t2.probeDTM(q, 0, sc); v.push_back(f ? sc : 99999); } return v; };
            std::vector<int> ansFirst = answers();
            // phase 0: freshly built table; phase 1: the same after TranspositionTable::clear() ("Clear Hash" with a resident
            // tablebase) and the next search's updateTB() for the same ending - a history, not a size computation
            for (int phase = 0; phase < 2; phase++) {
                long wrongAfterClear = 0;
                if (phase == 1) {
                    t2.clear();
                    // between the clear and the next updateTB the table may answer nothing or the truth, never anything else
                    std::vector<int> mid = answers();
                    for (size_t i = 0; i < sample.size(); i++) if (mid[i] != 99999 && mid[i] != ansFirst[i]) wrongAfterClear++;
                    ok = t2.updateTB(p, lim);
                    st = t2.verifState();
                }
                U64 before = checksum();
                std::vector<int> ansBefore = answers();
                for (int i = 0; i < (phase == 0 ? 6000000 : 3000000); i++) {
                    Move mv(Square(rnd.nextInt(64)), Square(rnd.nextInt(64)), 0);
                    mv.setScore(rnd.nextInt(1000));
                    U64 key = rnd.nextU64();
                    t2.insert(key, mv, 1 + rnd.nextInt(3), 0, rnd.nextInt(50), 0);
                    if ((i & 7) == 0) { TranspositionTable::TTEntry e; t2.probe(key, e); }      // probes refresh the generation (a store)
                    if ((i & 0xfffff) == 0) t2.nextGeneration();
                }
                U64 after = checksum();
                std::vector<int> ansAfter = answers();
                long changed = wrongAfterClear, found = 0;
                for (size_t i = 0; i < sample.size(); i++) { if (ansBefore[i] != ansAfter[i] || ansBefore[i] != ansFirst[i]) changed++; if (ansBefore[i] != 99999) found++; }
                if (changed) before = after + 1;        // reported through the same flag
                os << "{\"e\":\"TbAnswers\",\"phase\":" << phase << ",\"sampled\":" << sample.size() << ",\"answeredBefore\":" << found << ",\"changed\":" << changed << "}\n";
                n++;
                os << "{\"e\":\"TbRegion\",\"phase\":" << phase << ",\"built\":" << (ok ? "true" : "false") << ",\"same\":" << (before == after ? "true" : "false") << ",\"usedSize\":" << st.usedSize
                   << ",\"tableSize\":" << st.tableSize << ",\"tbEntries\":" << (tbBytes / 16) << "}\n";
                n++;
            }
        }
        printf("{\"misc_records\":%ld}\n", n);
        return 0;
    }
    if (mode == "life") {
        // life cycle of the on-demand tablebase inside the hash table (spec/TBLife.tla): random call histories on ONE table object;
        // after every call the projected state and the answers for a fixed sample of both classes (compared with reference tables
        // generated in fresh objects) are logged.  An abort is a stop request that arrives at iteration 2 of the generation.
        int nSeq = atoi(argv[3]);
        std::ofstream os(argv[4]);
        os << "{\"e\":\"Meta\",\"check\":\"C08\",\"mode\":\"life\"}\n";
        static RelaxedShared<S64>* limP = nullptr;
        static bool wantAbort = false, started = false;
        verif::tbPhaseHook = [](int phase, int n) { started = true; if (wantAbort && phase == 2 && n >= 2 && limP) *limP = 0; };
        const char* rootFen[2] = {"8/8/8/3k4/8/3K4/4Q3/8 w - - 0 1", "8/8/8/3k4/8/3K4/4R3/8 b - - 0 1"};
        const char* clsName[2] = {"KQK", "KRK"};
        Position root[2] = {TextIO::readFEN(rootFen[0]), TextIO::readFEN(rootFen[1])};
        Position unsuit = TextIO::readFEN(TextIO::startPosFEN);
        std::vector<Position> sample[2];
        std::vector<int> truth[2];
        for (int c = 0; c < 2; c++) {
            std::vector<int> men;
            for (int sq = 0; sq < 64; sq++) if (root[c].getPiece(Square(sq)) != Piece::EMPTY) men.push_back(root[c].getPiece(Square(sq)));
            while (sample[c].size() < 150) {
                Position q; bool clash = false; std::set<int> used;
                for (int m : men) { int sq = rnd.nextInt(64); if (used.count(sq)) { clash = true; break; } used.insert(sq); q.setPiece(Square(sq), m); }
                if (clash) continue;
                q.setWhiteMove(rnd.nextInt(2) == 0);
                if (BitBoard::getKingDistance(q.wKingSq(), q.bKingSq()) < 2) continue;
                { Position t(q); t.setWhiteMove(!q.isWhiteMove()); if (MoveGen::inCheck(t)) continue; }
                sample[c].push_back(q);
            }
            TranspositionTable ref(512);
            ref.reSize(1 << 19);
            RelaxedShared<S64> lim(-1);
            if (!ref.updateTB(root[c], lim)) { fprintf(stderr, "reference table not built\n"); return 3; }
            for (const Position& q : sample[c]) { int sc = 0; truth[c].push_back(ref.probeDTM(q, 0, sc) ? sc : 99999); }
        }
        long n = 0;
        const U64 BIG = 1 << 19, SMALL = 1 << 18;      // 8 MB hosts a tablebase (>= 7 MB), 4 MB does not
        for (int s = 0; s < nSeq; s++) {
            bool big = rnd.nextInt(4) != 0;
            os << "{\"e\":\"Reset\",\"big\":" << (big ? "true" : "false") << "}\n";
            TranspositionTable tt(512);
            tt.reSize(big ? BIG : SMALL);
            RelaxedShared<S64> lim(-1);
            limP = &lim;
            bool idle = rnd.nextInt(3) == 0;
            int len = 8 + rnd.nextInt(idle ? 24 : 10);
            for (int i = 0; i < len; i++) {
                int k = rnd.nextInt(16);
                if (idle && rnd.nextInt(2) == 0) k = 0;         // histories in which unused tables grow old (dropped with the fifth idle root in a row)
                const char* op; int c = -1; const char* t = "none"; bool ret = false; started = false; wantAbort = false;
                if (k < 5) { op = "unsuit"; lim = -1; ret = tt.updateTB(unsuit, lim); }
                else if (k < 11) {
                    op = "suit"; c = rnd.nextInt(2);
                    int tk = rnd.nextInt(5);
                    if (tk == 0) { t = "short"; lim = 10; } else if (tk == 1) { t = "abort"; lim = -1; wantAbort = true; } else { t = "ok"; lim = -1; }
                    ret = tt.updateTB(root[c], lim);
                    wantAbort = false;
                }
                else if (k == 11) { op = "clear"; tt.clear(); }
                else if (k == 12) { op = "resize"; big = rnd.nextInt(3) != 0; tt.reSize(big ? BIG : SMALL); }
                else {
                    op = "traffic";
                    for (int j = 0; j < 400000; j++) {
                        Move mv(Square(rnd.nextInt(64)), Square(rnd.nextInt(64)), 0);
                        mv.setScore(rnd.nextInt(1000));
                        U64 key = rnd.nextU64();
                        tt.insert(key, mv, 1 + rnd.nextInt(3), 0, rnd.nextInt(50), 0);
                        if ((j & 7) == 0) { TranspositionTable::TTEntry e; tt.probe(key, e); }
                        if ((j & 0xffff) == 0) tt.nextGeneration();
                    }
                }
                auto st = tt.verifState();
                int ans[2] = {0, 0}, wrong[2] = {0, 0};
                for (int cc = 0; cc < 2; cc++)
                    for (size_t q = 0; q < sample[cc].size(); q++) {
                        int sc = 0;
                        if (tt.probeDTM(sample[cc][q], 0, sc)) { ans[cc]++; if (sc != truth[cc][q]) wrong[cc]++; }
                    }
                os << "{\"e\":\"Life\",\"op\":\"" << op << "\",\"c\":\"" << (c < 0 ? "none" : clsName[c]) << "\",\"t\":\"" << t << "\",\"big\":" << (big ? "true" : "false")
                   << ",\"ret\":" << (ret ? "true" : "false") << ",\"started\":" << (started ? "true" : "false") << ",\"resident\":" << (st.tbResident ? "true" : "false")
                   << ",\"reduced\":" << (st.usedSize < st.tableSize ? "true" : "false")
                   << ",\"room\":" << (st.usedSize * 16 + 5 * 1024 * 1024 <= st.tableSize * 16 ? "true" : "false")
                   << ",\"ansQ\":" << ans[0] << ",\"ansR\":" << ans[1] << ",\"wrongQ\":" << wrong[0] << ",\"wrongR\":" << wrong[1] << ",\"sample\":" << sample[0].size() << "}\n";
                n++;
            }
        }
        printf("{\"life_records\":%ld,\"life_histories\":%d}\n", n, nSeq);
        return 0;
    }
    return 2;
}
