// C11(b) trace recorder: random command sequences fed to the console Game (two human players);
// after every command the game state, draw-offer flag and position are logged for validation
// against spec/ChessGame.tla.   usage: h_game <seed> <nGames> <outPrefix> <nFiles>
#include "hcommon.hpp"
#include "game.hpp"
#include "humanPlayer.hpp"
#include <fstream>
#include <iostream>
#include <sstream>
using namespace vh;

struct Ctx {
    std::ostream& os;
    Game& game;
    long cmds;
    Ctx(std::ostream& o, Game& g) : os(o), game(g), cmds(0) {}
    void log(const std::string& kind, const std::string& extra, bool ok) {
        Position pos = game.getPos();
        // the history the console game hands to its engine player (tuigame -> ComputerPlayer::getCommand): the positions before the
        // current one, back to the last zeroing move
        std::vector<Position> hist;
        game.getHistory(hist);
        os << "{\"e\":\"GameCmd\",\"kind\":\"" << kind << "\"" << extra << ",\"ok\":" << (ok ? "true" : "false")
           << ",\"histLen\":" << hist.size() << ",\"histFirstClock\":" << (hist.empty() ? -1 : hist[0].getHalfMoveClock())
           << ",\"state\":" << (int)game.getGameState() << ",\"offer\":" << (game.haveDrawOffer() ? "true" : "false")
           << "," << posFieldsJ(pos) << "}\n";
        cmds++;
    }
};

int main(int argc, char** argv) {
    if (argc < 5) { fprintf(stderr, "usage: h_game seed nGames outPrefix nFiles\n"); return 2; }
    U64 seed = std::stoull(argv[1]);
    int nGames = atoi(argv[2]);
    std::string prefix = argv[3];
    int nFiles = atoi(argv[4]);
    vh::init();
    std::streambuf* coutBuf = std::cout.rdbuf();
    std::ostringstream sink;           // Game prints messages to std::cout
    Random rnd(seed, 0xC11);
    long totalCmds = 0, claimsOk = 0, claims = 0, overStates = 0, undos = 0;
    std::vector<std::string> samples;
    static const char* setFens[] = {
        "8/8/8/3k4/8/3K4/4R3/8 w - - 92 60", "8/8/8/3k4/8/3K4/4R3/8 b - - 97 60", "4k3/8/8/8/8/8/8/R3K2R w KQ - 0 1",
        "r3k2r/8/8/8/8/8/8/R3K2R w KQkq - 95 40", "3k4/8/8/8/3p4/8/4P3/3R2K1 w - - 0 1", "8/8/8/3k4/8/3KB3/8/8 w - - 0 1",
        "8/8/4b3/3k4/8/3KB3/8/8 w - - 0 1", "8/8/4n3/3k4/8/3KB3/8/8 w - - 0 1", "6k1/5ppp/8/8/8/8/5PPP/4R1K1 w - - 0 1",
        "7k/5Q2/6K1/8/8/8/8/8 w - - 98 70", "8/8/8/8/8/5k2/4q3/7K b - - 3 9", "k7/8/1K6/8/8/8/8/6Q1 w - - 99 80",
        "8/2p5/3p4/KP5r/1R3p1k/8/4P1P1/8 w - - 0 1", "rnbqkbnr/pppppppp/8/8/8/8/PPPPPPPP/RNBQKBNR w KQkq - 0 1",
        // clock close to 100 with captures, pawn moves and castling available (claims accompanied by a zeroing move)
        "4k3/8/8/3n4/4N3/8/3q4/3QK3 w - - 98 60", "r1bqk2r/pppp1ppp/2n2n2/2b1p3/2B1P3/2N2N2/PPPP1PPP/R1BQK2R w KQkq - 97 50",
        "r3k2r/p6p/8/3Nn3/8/8/P6P/R3K2R b KQkq - 98 70", "6k1/5ppp/8/2b5/8/4B3/5PPP/6K1 w - - 99 90", "8/3k4/8/2pP4/8/8/3K4/8 w - c6 0 50"
    };
    const int nSetFens = (int)(sizeof(setFens) / sizeof(setFens[0]));
    for (int gno = 0; gno < nGames; gno++) {
        std::ofstream os(prefix + "." + std::to_string(gno % nFiles) + ".ndjson", std::ios::app);
        std::cout.rdbuf(sink.rdbuf());
        Game game(make_unique<HumanPlayer>(), make_unique<HumanPlayer>());
        Ctx c(os, game);
        os << "{\"e\":\"GameNew\"}\n";
        int n = 20 + rnd.nextInt(140);
        std::vector<Move> recent;     // moves made, to build shuffles
        if (rnd.nextInt(12) == 0) {
            // directed family: a double pawn push beside an enemy pawn that is pinned along the rank (texel's pseudo en-passant square, which
            // every entry point has to clear), optionally taken back and replayed with undo / redo at some point, then king shuffles that
            // bring the position after the push back twice, then the repetition claim with the move that makes the third occurrence
            static const char* scr[2][10] = {
                {"8/8/8/8/k2p3R/8/4P3/4K3 w - - 0 1", "e4", "Ka5", "Kd1", "Ka4", "Ke1", "Ka5", "Kd1", "Ka4", "Ke1"},
                {"4k3/4p3/8/K2P3r/8/8/8/8 b - - 0 1", "e5", "Ka4", "Kd8", "Ka5", "Ke8", "Ka4", "Kd8", "Ka5", "Ke8"}};
            int v = rnd.nextInt(2);
            int redoAfter = rnd.nextInt(3) == 0 ? -1 : 1 + rnd.nextInt(rnd.nextInt(2) == 0 ? 1 : 7);     // after which move the undo/redo pair comes (-1: never)
            int depthUR = 1 + rnd.nextInt(2);
            std::string fen = scr[v][0];
            bool ok = game.processString("setpos " + fen);
            Position p0 = TextIO::readFEN(fen);
            c.log("setpos", ",\"fen\":\"" + fen + "\",\"raw\":{" + posFieldsJ(p0) + "}", ok);
            for (int k = 1; k <= 9; k++) {
                Position pos = game.getPos();
                Move m = TextIO::stringToMove(pos, scr[v][k]);
                if (m.isEmpty()) break;
                if (k == 9) {
                    bool ok2 = game.processString(std::string("draw rep ") + scr[v][k]);
                    claims++;
                    if ((int)game.getGameState() == 5) claimsOk++;
                    c.log("claim", std::string(",\"rep\":true,\"hasM\":true,\"m\":") + mvJ(m), ok2);
                    break;
                }
                bool ok2 = game.processString(scr[v][k]);
                c.log("move", ",\"m\":" + mvJ(m), ok2);
                if (k == redoAfter) {
                    int d = std::min(depthUR, k);
                    for (int j = 0; j < d; j++) { bool o = game.processString("undo"); undos++; c.log("undo", "", o); }
                    for (int j = 0; j < d; j++) { bool o = game.processString("redo"); c.log("redo", "", o); }
                }
            }
            totalCmds += c.cmds;
            std::cout.rdbuf(coutBuf);
            continue;
        }
        if (rnd.nextInt(3) != 0) {
            std::string fen = setFens[rnd.nextInt(nSetFens)];
            if (rnd.nextInt(4) == 0) {
                // minor-piece endings: one to three bishops / knights of either side on squares of either colour (dead material is decided by
                // the colours of the bishops' squares), sometimes with one more man that can be captured
                for (int attempt = 0; attempt < 200; attempt++) {
                    int board[64] = {0};
                    auto put = [&](int pc, int colourWanted) { for (int t = 0; t < 200; t++) { int sq = rnd.nextInt(64); if (board[sq]) continue;
                                                               if (colourWanted >= 0 && ((sq % 8 + sq / 8) % 2) != colourWanted) continue; board[sq] = pc; return; } };
                    put(Piece::WKING, -1); put(Piece::BKING, -1);
                    int nMinor = 1 + rnd.nextInt(3);
                    int sameColour = rnd.nextInt(3) == 0 ? -1 : rnd.nextInt(2);      // all bishops on dark (0) / light (1) squares, or anywhere
                    for (int k = 0; k < nMinor; k++) {
                        bool knight = rnd.nextInt(6) == 0;
                        int pc = knight ? Piece::WKNIGHT : Piece::WBISHOP;
                        if (rnd.nextInt(2)) pc += 6;
                        put(pc, knight ? -1 : sameColour);
                    }
                    if (rnd.nextInt(4) == 0) put(rnd.nextInt(2) ? Piece::WROOK : Piece::BKNIGHT, -1);
                    std::string f;
                    for (int y = 7; y >= 0; y--) {
                        int e = 0;
                        for (int x = 0; x < 8; x++) { int pc = board[y * 8 + x]; if (!pc) { e++; continue; } if (e) { f += std::to_string(e); e = 0; } f += " KQRBNPkqrbnp"[pc]; }
                        if (e) f += std::to_string(e);
                        if (y) f += '/';
                    }
                    f += rnd.nextInt(2) ? " w - - 0 1" : " b - - 0 1";
                    try {
                        Position q = TextIO::readFEN(f);
                        Position o(q); o.setWhiteMove(!q.isWhiteMove());
                        if (MoveGen::inCheck(o)) continue;
                        fen = f;
                        break;
                    } catch (const ChessParseError&) {}
                }
            }
            bool ok = game.processString("setpos " + fen);
            Position p = TextIO::readFEN(fen);
            c.log("setpos", ",\"fen\":\"" + fen + "\",\"raw\":{" + posFieldsJ(p) + "}", ok);
        }
        for (int i = 0; i < n; i++) {
            Position pos = game.getPos();
            MoveList ml;
            legalMoves(pos, ml);
            int act = rnd.nextInt(100);
            auto pickMove = [&]() -> Move {
                // prefer the inverse of the move made two plies ago (creates repetitions), else random quiet move
                if (recent.size() >= 2 && rnd.nextInt(100) < 65) {
                    Move prev = recent[recent.size() - 2];
                    for (int k = 0; k < ml.size; k++)
                        if (ml[k].from() == prev.to() && ml[k].to() == prev.from() && ml[k].promoteTo() == Piece::EMPTY
                            && pos.getPiece(ml[k].to()) == Piece::EMPTY) return ml[k];
                }
                if (rnd.nextInt(100) < 70) {      // quiet non-pawn move
                    for (int t = 0; t < 8; t++) {
                        const Move& m = ml[rnd.nextInt(ml.size)];
                        int p = pos.getPiece(m.from());
                        if (p != Piece::WPAWN && p != Piece::BPAWN && pos.getPiece(m.to()) == Piece::EMPTY) return m;
                    }
                }
                return ml[rnd.nextInt(ml.size)];
            };
            auto mstr = [&](const Move& m) { return TextIO::moveToString(pos, m, true); };
            // a move that resets the clock or is otherwise special (captures by pieces and pawns, pawn moves, castling, promotions)
            auto pickSpecial = [&]() -> Move {
                std::vector<Move> sp;
                for (int k = 0; k < ml.size; k++) {
                    int p = pos.getPiece(ml[k].from());
                    bool pawn = p == Piece::WPAWN || p == Piece::BPAWN;
                    bool king2 = (p == Piece::WKING || p == Piece::BKING) && std::abs(ml[k].to().asInt() - ml[k].from().asInt()) == 2;
                    if (pawn || king2 || pos.getPiece(ml[k].to()) != Piece::EMPTY) sp.push_back(ml[k]);
                }
                return sp.empty() ? pickMove() : sp[rnd.nextInt((int)sp.size())];
            };
            if (ml.size == 0) act = 70 + rnd.nextInt(30);       // game over by position: only commands make sense
            else if (pos.getHalfMoveClock() >= 94 && rnd.nextInt(3) == 0) act = 58;     // near the 50-move boundary claims are frequent
            if (act < 58) {
                Move m = pickMove();
                bool ok = game.processString(mstr(m));
                c.log("move", ",\"m\":" + mvJ(m), ok);
                if (ok) recent.push_back(m);
            } else if (act < 66) {
                bool rep = rnd.nextInt(2) == 0, hasM = rnd.nextInt(3) != 0 && ml.size > 0;
                if (pos.getHalfMoveClock() >= 94 && rnd.nextInt(4) != 0) rep = false;
                Move m = hasM ? (rnd.nextInt(2) == 0 ? pickSpecial() : pickMove()) : Move();
                std::string cmd = std::string("draw ") + (rep ? "rep" : "50") + (hasM ? " " + mstr(m) : "");
                int before = (int)game.getGameState();
                bool ok = game.processString(cmd);
                claims++;
                int st = (int)game.getGameState();
                if (before == 0 && (st == 5 || st == 6)) claimsOk++;
                else if (before == 0 && hasM) recent.push_back(m);
                c.log("claim", std::string(",\"rep\":") + (rep ? "true" : "false") + ",\"hasM\":" + (hasM ? "true" : "false") + ",\"m\":" + mvJ(m), ok);
            } else if (act < 70 && ml.size > 0) {
                Move m = pickMove();
                int before = (int)game.getGameState();
                bool ok = game.processString("draw offer " + mstr(m));
                if (before == 0) recent.push_back(m);
                c.log("offer", ",\"m\":" + mvJ(m), ok);
            } else if (act < 75) {
                bool ok = game.processString("draw accept");
                c.log("accept", "", ok);
            } else if (act < 83) {
                bool ok = game.processString("undo");
                if (!recent.empty()) recent.pop_back();
                undos++;
                c.log("undo", "", ok);
            } else if (act < 89) {
                bool ok = game.processString("redo");
                recent.clear();
                c.log("redo", "", ok);
            } else if (act < 91) {
                bool ok = game.processString("resign");
                c.log("resign", "", ok);
            } else if (act < 93) {
                bool ok = game.processString("a1-a1");       // from == to: not a legal move in any position (a1-h8x was one once in 9000 games)
                c.log("badmove", "", ok);
            } else if (act < 95) {
                bool ok = game.processString("new");
                recent.clear();
                c.log("new", "", ok);
            } else if (ml.size > 0) {
                Move m = ml[rnd.nextInt(ml.size)];          // arbitrary (possibly zeroing) move
                bool ok = game.processString(mstr(m));
                c.log("move", ",\"m\":" + mvJ(m), ok);
                if (ok) recent.push_back(m);
            }
            if ((int)game.getGameState() != 0) overStates++;
        }
        totalCmds += c.cmds;
        if (samples.size() < 3) samples.push_back(std::to_string(c.cmds) + " commands, final state " + std::to_string((int)game.getGameState()) + " at " + TextIO::toFEN(game.getPos()));
        std::cout.rdbuf(coutBuf);
    }
    printf("{\"games\":%d,\"commands\":%ld,\"claims\":%ld,\"claims_valid\":%ld,\"undos\":%ld,\"cmds_in_over_state\":%ld,\"samples\":[", nGames, totalCmds, claims, claimsOk, undos, overStates);
    for (size_t i = 0; i < samples.size(); i++) printf("%s\"%s\"", i ? "," : "", jsonEsc(samples[i]).c_str());
    printf("]}\n");
    return 0;
}
