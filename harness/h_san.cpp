// h_san "<fen>" <move text>: what TextIO::stringToMove makes of a move text (diagnostic helper)
#include "textio.hpp"
#include "computerPlayer.hpp"
#include <iostream>
int main(int argc,char**argv){ ComputerPlayer::initEngine(); Position pos=TextIO::readFEN(argv[1]); Move m=TextIO::stringToMove(pos,argv[2]); std::cout<<TextIO::moveToUCIString(m)<<" empty="<<m.isEmpty()<<"\n"; }
