// C07 trace recorder: the static evaluation as a pure, symmetric function of (position, contempt).
//   h_eval pairs  <seed> <nWalks> <out>     histories (make/unmake/null/copy) with an incrementally updated evaluator;
//                                           EvalPair events: incremental vs fresh, cache-polluted vs fresh, flip, mirror
//   h_eval search <seed> <nSearches> <out>  real searches with the TEXEL_VERIF evaluation hook sampling evaluations performed
//                                           inside the search; each sample is re-evaluated from scratch afterwards
//   h_eval values <seed> <n> <out>          plain list of (position, contempt, value) for cross-variant comparison
#include "hcommon.hpp"
#include "hgen.hpp"
#include "evaluate.hpp"
#include "endGameEval.hpp"
#include "search.hpp"
#include "transpositionTable.hpp"
#include "history.hpp"
#include "killerTable.hpp"
#include "treeLogger.hpp"
#include "parallel.hpp"
#include "verifhooks.hpp"
#include <fstream>
#include <iostream>

using namespace vh;

static std::string evJ(const Position& pos, int contempt, int val, const char* how) {
    return "{" + posFieldsJ(pos) + ",\"contempt\":" + std::to_string(contempt) + ",\"val\":" + std::to_string(val) + ",\"how\":\"" + how + "\"}";
}

static int freshEval(const Position& pos, int contempt) {
    auto et = Evaluate::getEvalHashTables();
    Evaluate ev(*et);
    Position p(pos);
    ev.connectPosition(p);
    ev.setWhiteContempt(contempt);
    return ev.evalPos();
}

static Position flipped(const Position& pos) {   // colours swapped, board flipped (harness's own construction)
    Position p;
    for (int sq = 0; sq < 64; sq++) {
        int pc = pos.getPiece(Square(sq));
        if (pc == Piece::EMPTY) continue;
        int fp = Piece::isWhite(pc) ? pc + 6 : pc - 6;
        p.setPiece(Square(sq % 8, 7 - sq / 8), fp);
    }
    p.setWhiteMove(!pos.isWhiteMove());
    int c = pos.getCastleMask(), fc = 0;
    if (c & 1) fc |= 4; if (c & 2) fc |= 8; if (c & 4) fc |= 1; if (c & 8) fc |= 2;
    p.setCastleMask(fc);
    Square e = pos.getEpSquare();
    p.setEpSquare(e.isValid() ? Square(e.getX(), 7 - e.getY()) : Square(-1));
    p.setHalfMoveClock(pos.getHalfMoveClock());
    p.setFullMoveCounter(pos.getFullMoveCounter());
    return p;
}
static Position mirrored(const Position& pos) {
    Position p;
    for (int sq = 0; sq < 64; sq++) {
        int pc = pos.getPiece(Square(sq));
        if (pc != Piece::EMPTY) p.setPiece(Square(7 - sq % 8, sq / 8), pc);
    }
    p.setWhiteMove(pos.isWhiteMove());
    p.setCastleMask(0);
    Square e = pos.getEpSquare();
    p.setEpSquare(e.isValid() ? Square(7 - e.getX(), e.getY()) : Square(-1));
    p.setHalfMoveClock(pos.getHalfMoveClock());
    p.setFullMoveCounter(pos.getFullMoveCounter());
    return p;
}

static void pairJ(std::ostream& os, const char* rel, const std::string& a, const std::string& b) {
    os << "{\"e\":\"EvalPair\",\"rel\":\"" << rel << "\",\"a\":" << a << ",\"b\":" << b << "}\n";
}

struct Frame { Move m; UndoInfo ui; int kind; Square ep; int hmc; };

struct Sample { Position::SerializeData sd; int contempt; int val; };
static std::vector<Sample>* gSamples = nullptr;
static U64 gEvalCount = 0, gEvery = 97;
static void evalHook(const Position& pos, int contempt, int score) {
    gEvalCount++;
    if (gSamples && gEvalCount % gEvery == 0 && gSamples->size() < 4000) {
        Sample s; pos.serialize(s.sd); s.contempt = contempt; s.val = score;
        gSamples->push_back(s);
    }
}

int main(int argc, char** argv) {
    if (argc < 5) return 2;
    std::string mode = argv[1];
    U64 seed = std::stoull(argv[2]);
    int n = atoi(argv[3]);
    std::ofstream os(argv[4]);
    vh::init();
    os << "{\"e\":\"Meta\",\"check\":\"C07\",\"seed\":" << seed << "}\n";
    Random rnd(seed, 0xC07);
    Gen gen(rnd);
    std::vector<std::string> fens = startFens();
    long pairs = 0, evals = 0;
    if (mode == "pairs" || mode == "values") {
        auto et = Evaluate::getEvalHashTables();     // one cache for the whole run: gets thoroughly polluted
        // Material families: the endgame evaluator keys its rules by material class and the evaluator caches per-material and per-pawn-
        // structure data, so the same class must come out right whatever placement of it was evaluated first.  Classes: every material
        // class named in endGameEval.cpp, plus or minus one unit; several random placements of one class go through the shared tables.
        static const char* classes[] = {"Q|P", "Q|", "R|P", "R|B", "RP|R", "RP|RP", "NN|", "NB|", "P|", "P|P", "BP|B", "BP|N", "NP|B", "NP|", "BB|N",
                                        "RP|B", "RP|BP", "R|BP", "BP|", "B|P", "N|", "B|", "N|N", "B|B", "N|B", "QP|Q", "RB|R", "RN|R", "Q|R", "Q|RP", "PP|P"};
        auto materialFamily = [&]() {
            std::string cls = classes[rnd.nextInt((int)(sizeof(classes) / sizeof(classes[0])))];
            std::string side[2] = {cls.substr(0, cls.find('|')), cls.substr(cls.find('|') + 1)};
            for (int extra = rnd.nextInt(3); extra > 0; extra--) side[rnd.nextInt(2)] += "QRBNPP"[rnd.nextInt(6)];
            if (rnd.nextInt(2)) std::swap(side[0], side[1]);
            int contempt = 0;
            for (int placement = 0; placement < 8; placement++) {
                for (int attempt = 0; attempt < 40; attempt++) {
                    int board[64] = {0};
                    auto put = [&](int pc, bool pawn) {
                        for (int t = 0; t < 100; t++) {
                            int sq = rnd.nextInt(64);
                            if (board[sq] || (pawn && (sq < 8 || sq >= 56))) continue;
                            // pawns like the edge files now and then (rook-pawn rules)
                            if (pawn && rnd.nextInt(3) == 0) { int f = rnd.nextInt(2) ? 0 : 7; int sq2 = (sq / 8) * 8 + f; if (!board[sq2]) sq = sq2; }
                            board[sq] = pc; return;
                        }
                    };
                    put(Piece::WKING, false); put(Piece::BKING, false);
                    for (int c = 0; c < 2; c++)
                        for (char ch : side[c]) {
                            int pc = ch == 'Q' ? Piece::WQUEEN : ch == 'R' ? Piece::WROOK : ch == 'B' ? Piece::WBISHOP : ch == 'N' ? Piece::WKNIGHT : Piece::WPAWN;
                            put(c == 0 ? pc : pc + 6, ch == 'P');
                        }
                    std::string fen;
                    for (int y = 7; y >= 0; y--) {
                        int e = 0;
                        for (int x = 0; x < 8; x++) {
                            int pc = board[y * 8 + x];
                            if (!pc) { e++; continue; }
                            if (e) { fen += std::to_string(e); e = 0; }
                            fen += " KQRBNPkqrbnp"[pc];
                        }
                        if (e) fen += std::to_string(e);
                        if (y) fen += '/';
                    }
                    fen += rnd.nextInt(2) ? " w - - 0 1" : " b - - 0 1";
                    Position pos;
                    try { pos = TextIO::readFEN(fen); } catch (const ChessParseError&) { continue; }
                    { Position chk(pos); chk.setWhiteMove(!pos.isWhiteMove()); if (MoveGen::inCheck(chk)) continue; }   // side not to move in check
                    Evaluate ev(*et);
                    ev.connectPosition(pos);
                    ev.setWhiteContempt(contempt);
                    int v = ev.evalPos();
                    evals++;
                    if (mode == "values") os << "{\"e\":\"EvalVal\",\"x\":" << evJ(pos, contempt, v, "material-family") << "}\n";
                    else { pairJ(os, "same", evJ(pos, contempt, v, "material-family-through-shared-tables"), evJ(pos, contempt, freshEval(pos, contempt), "fresh")); pairs++; }
                    break;
                }
            }
        };
        for (int w = 0; w < n; w++) {
            for (int k = 0; k < 3; k++) materialFamily();
            Position pos;
            if (rnd.nextInt(4) == 0) {
                bool ok = false;
                for (int a = 0; a < 30 && !ok; a++) { try { pos = TextIO::readFEN(rawFen(gen.gen())); ok = true; } catch (const ChessParseError&) {} }
                if (!ok) pos = TextIO::readFEN(fens[0]);
            } else pos = TextIO::readFEN(fens[rnd.nextInt((int)fens.size())]);
            int contempt = (rnd.nextInt(3) == 0) ? (rnd.nextInt(2) ? 1 : -1) * (1 + rnd.nextInt(300)) : 0;
            Evaluate ev(*et);
            ev.connectPosition(pos);
            ev.setWhiteContempt(contempt);
            std::vector<Frame> stack;
            int steps = 20 + rnd.nextInt(mode == "values" ? 60 : 200);
            for (int s = 0; s < steps; s++) {
                int act = rnd.nextInt(100);
                bool inNull = false;
                for (auto& f : stack) if (f.kind == 1) inNull = true;
                if (act < 15 && !stack.empty()) {
                    int k = 1 + rnd.nextInt((int)std::min<size_t>(stack.size(), 8));
                    for (int i = 0; i < k; i++) {
                        Frame f = stack.back(); stack.pop_back();
                        if (f.kind == 0) pos.unMakeMove(f.m, f.ui);
                        else { pos.setEpSquare(f.ep); pos.setWhiteMove(!pos.isWhiteMove()); pos.setHalfMoveClock(f.hmc); }
                    }
                } else if (act < 20 && !inNull && !MoveGen::inCheck(pos)) {
                    Frame f; f.kind = 1; f.ep = pos.getEpSquare(); f.hmc = pos.getHalfMoveClock();
                    pos.setWhiteMove(!pos.isWhiteMove()); pos.setEpSquare(Square(-1)); pos.setHalfMoveClock(0);
                    stack.push_back(f);
                } else if (act < 24) {
                    // position copies as the search makes them: save a copy, later assign it back into the connected position
                    Position c(pos);
                    pos = c;
                } else if (act < 28 && !inNull) {
                    // a snapshot assigned back after a shuffle: four reversible moves return to the same placement, then the snapshot
                    // (same board, OTHER history: four plies shorter) is assigned into the connected position; the take-backs that
                    // follow belong to the snapshot's history, not to the moves the evaluator has seen
                    Position snap(pos);
                    std::vector<Frame> made;
                    auto quiet = [&](Move& out, const Move* want) {
                        MoveList ml; legalMoves(pos, ml);
                        for (int t = 0; t < 40; t++) {
                            if (ml.size == 0) return false;
                            const Move& c = ml[rnd.nextInt(ml.size)];
                            if (want) { bool found = false; for (int i = 0; i < ml.size; i++) if (ml[i] == *want) found = true; if (!found) return false; out = *want; return true; }
                            int pc = pos.getPiece(c.from());
                            if (pc == Piece::WPAWN || pc == Piece::BPAWN || pos.getPiece(c.to()) != Piece::EMPTY) continue;
                            if ((pc == Piece::WKING || pc == Piece::BKING) && std::abs(c.to().asInt() - c.from().asInt()) == 2) continue;
                            out = c; return true;
                        }
                        return false;
                    };
                    Move m1, m2, b1, b2;
                    bool ok = quiet(m1, nullptr);
                    if (ok) { Frame f; f.kind = 0; f.m = m1; pos.makeMove(m1, f.ui); made.push_back(f); ok = quiet(m2, nullptr); }
                    if (ok) { Frame f; f.kind = 0; f.m = m2; pos.makeMove(m2, f.ui); made.push_back(f); Move w(m1.to(), m1.from(), Piece::EMPTY); ok = quiet(b1, &w); }
                    if (ok) { Frame f; f.kind = 0; f.m = b1; pos.makeMove(b1, f.ui); made.push_back(f); Move w(m2.to(), m2.from(), Piece::EMPTY); ok = quiet(b2, &w); }
                    if (ok) { Frame f; f.kind = 0; f.m = b2; pos.makeMove(b2, f.ui); made.push_back(f); }
                    if (ok && rnd.nextInt(3)) ev.evalPos();        // the evaluator has usually looked at the shuffled line
                    if (ok) {
                        pos = snap;                                // harness frames stay as they were before the shuffle
                    } else {
                        for (auto& f : made) stack.push_back(f);   // incomplete shuffle: ordinary moves
                    }
                } else {
                    MoveList ml;
                    legalMoves(pos, ml);
                    if (ml.size == 0 || pos.getHalfMoveClock() >= 100) {
                        if (stack.empty()) break;
                        Frame f = stack.back(); stack.pop_back();
                        if (f.kind == 0) pos.unMakeMove(f.m, f.ui);
                        else { pos.setEpSquare(f.ep); pos.setWhiteMove(!pos.isWhiteMove()); pos.setHalfMoveClock(f.hmc); }
                    } else {
                        Frame f; f.kind = 0; f.m = ml[rnd.nextInt(ml.size)];
                        // the search does not evaluate every position it passes through: skip evaluation randomly so that
                        // several incremental updates (incl. king moves, captures, promotions) pile up before the next eval
                        pos.makeMove(f.m, f.ui);
                        stack.push_back(f);
                    }
                }
                if (rnd.nextInt(100) < 45) continue;
                int v = ev.evalPos();
                evals++;
                if (mode == "values") {
                    os << "{\"e\":\"EvalVal\",\"x\":" << evJ(pos, contempt, v, "incremental") << "}\n";
                    continue;
                }
                std::string a = evJ(pos, contempt, v, "incremental-after-history");
                int vf = freshEval(pos, contempt);
                pairJ(os, "same", a, evJ(pos, contempt, vf, "fresh")); pairs++;
                if (rnd.nextInt(4) == 0) {
                    Position fp = flipped(pos);
                    pairJ(os, "flip", a, evJ(fp, -contempt, freshEval(fp, -contempt), "flipped-fresh")); pairs++;
                }
                if (pos.getCastleMask() == 0 && rnd.nextInt(4) == 0) {
                    Position mp = mirrored(pos);
                    pairJ(os, "mirror", a, evJ(mp, contempt, freshEval(mp, contempt), "mirrored-fresh")); pairs++;
                }
                if (rnd.nextInt(5) == 0) {   // same placement under another half-move clock through the same (polluted) cache: the cache key
                                             // lumps clocks together (Position::historyHash), the evaluation must not tell them apart then
                    Position c(pos);
                    static const int clocks[] = {0, 1, 10, 20, 29, 30, 31, 35, 39, 40, 41, 49, 50, 60, 79, 80, 81, 90, 99};
                    c.setHalfMoveClock(clocks[rnd.nextInt(19)]);
                    Evaluate ev4(*et);
                    ev4.connectPosition(c);
                    ev4.setWhiteContempt(contempt);
                    int v4 = ev4.evalPos();
                    pairJ(os, "same", evJ(c, contempt, v4, "cache-polluted-other-clock"), evJ(c, contempt, freshEval(c, contempt), "fresh")); pairs++;
                    ev.connectPosition(pos);
                }
                if (rnd.nextInt(6) == 0) {   // same position evaluated under another contempt through the same (polluted) cache
                    int c2 = contempt == 0 ? 77 : -contempt;
                    Position c(pos);
                    Evaluate ev3(*et);
                    ev3.connectPosition(c);
                    ev3.setWhiteContempt(c2);
                    int v3 = ev3.evalPos();
                    pairJ(os, "same", evJ(c, c2, v3, "cache-polluted-other-contempt"), evJ(c, c2, freshEval(c, c2), "fresh")); pairs++;
                    ev.connectPosition(pos);
                }
            }
        }
    } else if (mode == "endgame") {
        // Symmetry of the endgame rules.  The rule functions (EndGameEval::endGameEval, no network involved, ~100 ns) are used to SCREEN
        // n placements per material class for an asymmetry of the correction they apply; what is recorded and judged by the
        // specification are complete evaluations: every screened candidate (capped) and a uniform sample of the rest.
        static const char* classes[] = {"Q|P", "Q|", "R|P", "R|B", "RP|R", "RP|RP", "NN|", "NB|", "P|", "P|P", "BP|B", "BP|N", "NP|B", "NP|", "BB|N",
                                        "RP|B", "RP|BP", "R|BP", "BP|", "B|P", "N|", "B|", "N|N", "B|B", "N|B", "QP|Q", "RB|R", "RN|R", "Q|R", "Q|RP", "PP|P",
                                        "Q|RB", "Q|RN", "QP|RB", "Q|RBP", "Q|RNP", "R|N", "RP|N", "BPP|", "BPP|B", "BP|P", "BP|BP", "NP|N", "R|P"};
        const int nClasses = (int)(sizeof(classes) / sizeof(classes[0]));
        const int perClassSample = argc > 5 ? atoi(argv[5]) : 30;
        long screened = 0, candidates = 0;
        for (int ci = 0; ci < 2 * nClasses; ci++) {
            std::string cls = classes[ci % nClasses];
            std::string side[2] = {cls.substr(0, cls.find('|')), cls.substr(cls.find('|') + 1)};
            if (ci >= nClasses) std::swap(side[0], side[1]);
            std::vector<int> pcs = {Piece::WKING, Piece::BKING};
            for (int c = 0; c < 2; c++)
                for (char ch : side[c]) {
                    int pc = ch == 'Q' ? Piece::WQUEEN : ch == 'R' ? Piece::WROOK : ch == 'B' ? Piece::WBISHOP : ch == 'N' ? Piece::WKNIGHT : Piece::WPAWN;
                    pcs.push_back(c == 0 ? pc : pc + 6);
                }
            int cands = 0, sampled = 0;
            for (int it = 0; it < n; it++) {
                Position pos;
                int sqs[8];
                bool ok = true;
                const bool cluster = rnd.nextInt(2) == 0;      // pieces huddle around the first pawn (fortress / blockade patterns)
                int anchor = -1;
                for (size_t k = 0; k < pcs.size() && ok; k++) {
                    bool pawn = pcs[k] == Piece::WPAWN || pcs[k] == Piece::BPAWN;
                    int sq = -1;
                    for (int t = 0; t < 30; t++) {
                        int c = rnd.nextInt(64);
                        if (pawn && (c < 8 || c >= 56)) continue;
                        bool clash = false;
                        for (size_t q = 0; q < k; q++) clash |= sqs[q] == c;
                        if (!clash) { sq = c; break; }
                    }
                    if (sq < 0) { ok = false; break; }
                    sqs[k] = sq;
                }
                if (!ok) continue;
                // anchor: the first pawn (else the first piece); two thirds of the other non-pawn men are re-drawn within two squares of it
                for (size_t k = 2; k < pcs.size(); k++) if (pcs[k] == Piece::WPAWN || pcs[k] == Piece::BPAWN) { anchor = sqs[k]; break; }
                if (anchor < 0 && pcs.size() > 2) anchor = sqs[2];
                if (cluster && anchor >= 0) {
                    for (size_t k = 0; k < pcs.size(); k++) {
                        if (sqs[k] == anchor) continue;
                        if (rnd.nextInt(3) == 0) continue;
                        bool pawn = pcs[k] == Piece::WPAWN || pcs[k] == Piece::BPAWN;
                        if (pawn) continue;
                        for (int t = 0; t < 10; t++) {
                            int x = anchor % 8 + rnd.nextInt(5) - 2, y = anchor / 8 + rnd.nextInt(5) - 2;
                            if (x < 0 || x > 7 || y < 0 || y > 7) continue;
                            int c = y * 8 + x;
                            bool clash = false;
                            for (size_t q = 0; q < pcs.size(); q++) clash |= q != k && sqs[q] == c;
                            if (!clash) { sqs[k] = c; break; }
                        }
                    }
                }
                if (BitBoard::getKingDistance(Square(sqs[0]), Square(sqs[1])) < 2) continue;
                for (size_t k = 0; k < pcs.size(); k++) pos.setPiece(Square(sqs[k]), pcs[k]);
                pos.setWhiteMove(rnd.nextInt(2) == 0);
                { Position chk(pos); chk.setWhiteMove(!pos.isWhiteMove()); if (MoveGen::inCheck(chk)) continue; }
                screened++;
                static const int scores[] = {60, -60, 350, -350, 900, -900, 2500, -2500};
                bool cand = false;
                Position mp = mirrored(pos), fp = flipped(pos);
                for (int si = 0; si < 8 && !cand; si++) {
                    int sc = scores[si];
                    int a = EndGameEval::endGameEval<true>(pos, sc);
                    cand = a != EndGameEval::endGameEval<true>(mp, sc) || a != -EndGameEval::endGameEval<true>(fp, -sc);
                }
                bool take = (cand && cands < 25) || (sampled < perClassSample && rnd.nextInt(std::max(1, n / (2 * perClassSample))) == 0);
                if (!take) continue;
                if (cand) { cands++; candidates++; } else sampled++;
                int contempt = 0;
                int v = freshEval(pos, contempt);
                std::string a = evJ(pos, contempt, v, cand ? "endgame-class-screened" : "endgame-class-sample");
                pairJ(os, "flip", a, evJ(fp, -contempt, freshEval(fp, -contempt), "flipped-fresh")); pairs++;
                pairJ(os, "mirror", a, evJ(mp, contempt, freshEval(mp, contempt), "mirrored-fresh")); pairs++;
                evals += 3;
            }
        }
        printf("{\"mode\":\"endgame\",\"pairs\":%ld,\"evals\":%ld,\"hooked_evals\":0,\"screened\":%ld,\"candidates\":%ld}\n", pairs, evals, screened, candidates);
        return 0;
    } else if (mode == "search") {
        verif::evalHook = evalHook;
        for (int sNo = 0; sNo < n; sNo++) {
            Position pos = TextIO::readFEN(fens[rnd.nextInt((int)fens.size())]);
            int pre = rnd.nextInt(30);
            for (int i = 0; i < pre; i++) {
                MoveList ml; legalMoves(pos, ml);
                if (ml.size == 0) break;
                UndoInfo ui; pos.makeMove(ml[rnd.nextInt(ml.size)], ui);
            }
            MoveList ml; legalMoves(pos, ml);
            if (ml.size == 0) continue;
            int contempt = (rnd.nextInt(3) == 0) ? (rnd.nextInt(2) ? 40 : -150) : 0;
            std::vector<Sample> samples;
            gSamples = &samples;
            gEvery = 50 + rnd.nextInt(100);
            {
                TranspositionTable tt(1 << 16);
                Notifier notifier;
                ThreadCommunicator comm(nullptr, tt, notifier, false);
                KillerTable kt; History ht; TreeLogger treeLog;
                auto et = Evaluate::getEvalHashTables();
                Search::SearchTables st(comm.getCTT(), kt, ht, *et);
                std::vector<U64> posHashList(SearchConst::MAX_SEARCH_DEPTH * 2 + 10);
                Search sc(pos, posHashList, 0, st, comm, treeLog);
                sc.setWhiteContempt(contempt);
                sc.timeLimit(-1, -1);
                sc.iterativeDeepening(ml, 5 + rnd.nextInt(3), -1, 1, false, 100, false);
            }
            gSamples = nullptr;
            for (const Sample& s : samples) {
                Position p;
                p.deSerialize(s.sd);
                pairJ(os, "same", evJ(p, s.contempt, s.val, "in-search(hook)"), evJ(p, s.contempt, freshEval(p, s.contempt), "fresh"));
                pairs++; evals++;
            }
        }
    }
    printf("{\"mode\":\"%s\",\"pairs\":%ld,\"evals\":%ld,\"hooked_evals\":%llu}\n", mode.c_str(), pairs, evals, (unsigned long long)gEvalCount);
    return 0;
}
