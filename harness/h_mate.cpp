// C04 helper: an untrusted brute-force mate solver that emits *certificates* for TLC.
//   h_mate harvest <seed> <count> <maxN>      roots with a forced mate in <= maxN moves (ND-JSON {fen, n})
//   h_mate cert                               stdin: lines "<tag>|<fen>|<N>|win" or "...|lost";
//                                             stdout: one ND-JSON line per claim with a proof tree, a refutation tree,
//                                             a lost-tree, or "undecided"
// Trees are nested JSON arrays in the schema of spec/Mate.tla.
#include "hcommon.hpp"
#include "hgen.hpp"
#include <iostream>
#include <sstream>
using namespace vh;

static long nodeBudget;

// returns true and fills tree if side to move can force mate within n moves
static bool prove(Position& pos, int n, std::string& tree) {
    if (n < 1 || --nodeBudget < 0) return false;
    MoveList ml;
    legalMoves(pos, ml);
    // try mating moves first
    for (int pass = 0; pass < 2; pass++) {
        for (int i = 0; i < ml.size; i++) {
            Move m = ml[i];
            UndoInfo ui;
            pos.makeMove(m, ui);
            MoveList rl;
            legalMoves(pos, rl);
            bool ok = false;
            std::string sub;
            if (rl.size == 0) {
                ok = MoveGen::inCheck(pos);
                sub = "[]";
            } else if (pass == 1 && n >= 2) {
                ok = true;
                sub = "[";
                for (int j = 0; j < rl.size && ok; j++) {
                    UndoInfo u2;
                    pos.makeMove(rl[j], u2);
                    std::string t2;
                    ok = prove(pos, n - 1, t2);
                    pos.unMakeMove(rl[j], u2);
                    if (ok) { if (j) sub += ','; sub += "[" + mvJ(rl[j]) + "," + t2 + "]"; }
                }
                sub += "]";
            }
            pos.unMakeMove(m, ui);
            if (ok) { tree = "[" + mvJ(m) + "," + sub + "]"; return true; }
            if (nodeBudget < 0) return false;
        }
    }
    return false;
}

// returns true and fills u if the side to move can NOT force mate within n moves
static bool refute(Position& pos, int n, std::string& u) {
    if (n <= 1) { u = "[]"; std::string t; long save = nodeBudget; nodeBudget = 1000000; bool p = prove(pos, 1, t); nodeBudget = save; return !p; }
    MoveList ml;
    legalMoves(pos, ml);
    u = "[";
    for (int i = 0; i < ml.size; i++) {
        Move m = ml[i];
        UndoInfo ui;
        pos.makeMove(m, ui);
        MoveList rl;
        legalMoves(pos, rl);
        bool found = false;
        std::string entry;
        if (rl.size == 0) {
            found = !MoveGen::inCheck(pos);
            entry = "[" + mvJ(m) + ",[-1,-1,0],[]]";
        } else {
            for (int j = 0; j < rl.size && !found; j++) {
                UndoInfo u2;
                pos.makeMove(rl[j], u2);
                std::string sub;
                if (refute(pos, n - 1, sub)) { found = true; entry = "[" + mvJ(m) + "," + mvJ(rl[j]) + "," + sub + "]"; }
                pos.unMakeMove(rl[j], u2);
            }
        }
        pos.unMakeMove(m, ui);
        if (!found) return false;
        if (i) u += ',';
        u += entry;
    }
    u += "]";
    return true;
}

int main(int argc, char** argv) {
    if (argc < 2) return 2;
    std::string mode = argv[1];
    vh::init();
    if (mode == "harvest") {
        U64 seed = std::stoull(argv[2]);
        int count = atoi(argv[3]), maxN = atoi(argv[4]);
        Random rnd(seed, 0xC04);
        Gen gen(rnd);
        const auto& fens = startFens();
        int emitted = 0, perN[8] = {0};
        while (emitted < count) {
            Position pos;
            int mode2 = rnd.nextInt(10);
            if (mode2 < 3) {
                RawPos r = gen.gen();
                r.hmc = 0;
                try { pos = TextIO::readFEN(rawFen(r)); } catch (const ChessParseError&) { continue; }
            } else {
                pos = TextIO::readFEN(rnd.nextInt(2) ? fens[0] : fens[rnd.nextInt((int)fens.size())]);
            }
            int plies = mode2 < 3 ? 1 + rnd.nextInt(4) : 20 + rnd.nextInt(120);
            for (int i = 0; i < plies && emitted < count; i++) {
                MoveList ml;
                legalMoves(pos, ml);
                if (ml.size == 0 || pos.getHalfMoveClock() >= 90) break;
                if (i % 2 == 0 || mode2 < 3) {
                    for (int n = 1; n <= maxN; n++) {
                        if (perN[n] * maxN > emitted + 3 && n < maxN) continue;     // balance the classes
                        std::string t;
                        nodeBudget = n <= 2 ? 200000 : 60000;
                        Position p2(pos);
                        p2.setHalfMoveClock(0);
                        if (prove(p2, n, t)) {
                            bool shorter = false;
                            if (n > 1) { std::string t2; nodeBudget = 200000; shorter = prove(p2, n - 1, t2); }
                            if (!shorter) {
                                printf("{\"fen\":\"%s\",\"n\":%d}\n", TextIO::toFEN(p2).c_str(), n);
                                perN[n]++; emitted++;
                            }
                            break;
                        }
                    }
                }
                UndoInfo ui;
                pos.makeMove(ml[rnd.nextInt(ml.size)], ui);
            }
        }
        return 0;
    }
    if (mode == "harvest1") {
        // mate-in-one families by type of the mating move: castle, ep, promo, discovered, double
        U64 seed = std::stoull(argv[2]);
        int count = atoi(argv[3]);
        Random rnd(seed, 0xC041);
        Gen gen(rnd);
        int got[5] = {0}, emitted = 0;
        static const char* names[5] = {"castle", "ep", "promo", "discovered", "double"};
        // family "ep-rank-discovery": the en-passant capture removes BOTH pawns from the rank between an own rook/queen and the enemy
        // king; both orders of the two pawns, both colours (constructed, then kept only if the capture really mates)
        {
            int want = std::max(4, count / 3), have = 0;
            for (long tries = 0; tries < 4000000 && have < want; tries++) {
                int board[64] = {0};
                bool kingRight = rnd.nextInt(2) == 0;
                int xk = kingRight ? 7 - rnd.nextInt(2) : rnd.nextInt(2);
                int xr = kingRight ? rnd.nextInt(3) : 7 - rnd.nextInt(3);
                int lo = std::min(xk, xr) + 1, hi = std::max(xk, xr) - 1;
                if (hi - lo < 1) continue;
                int xa = lo + rnd.nextInt(hi - lo);          // pawns on xa, xa+1
                bool whiteFirst = rnd.nextInt(2) == 0;      // white pawn on xa?
                int xw = whiteFirst ? xa : xa + 1, xb = whiteFirst ? xa + 1 : xa;
                board[4 * 8 + xk] = Piece::BKING;
                board[4 * 8 + xr] = rnd.nextInt(3) ? Piece::WROOK : Piece::WQUEEN;
                board[4 * 8 + xw] = Piece::WPAWN;
                board[4 * 8 + xb] = Piece::BPAWN;
                static const int extra[] = {Piece::WROOK, Piece::WQUEEN, Piece::WBISHOP, Piece::WKNIGHT, Piece::WROOK, Piece::BPAWN, Piece::BKNIGHT};
                bool ok = true;
                auto put = [&](int pc) { for (int t = 0; t < 50; t++) { int sq = rnd.nextInt(64); if (sq / 8 == 4 || board[sq] || (sq / 8 == 5 && sq % 8 == xb) || (sq / 8 == 6 && sq % 8 == xb)) continue;
                                                                          if ((pc == Piece::BPAWN) && (sq < 8 || sq >= 56)) continue; board[sq] = pc; return; } ok = false; };
                put(Piece::WKING);
                for (int k = 1 + rnd.nextInt(3); k > 0; k--) put(extra[rnd.nextInt(7)]);
                if (!ok) continue;
                std::string fen;
                for (int y = 7; y >= 0; y--) {
                    int e = 0;
                    for (int x = 0; x < 8; x++) { int pc = board[y * 8 + x]; if (!pc) { e++; continue; } if (e) { fen += std::to_string(e); e = 0; } fen += " KQRBNPkqrbnp"[pc]; }
                    if (e) fen += std::to_string(e);
                    if (y) fen += '/';
                }
                fen += std::string(" w - ") + (char)('a' + xb) + "6 0 1";
                bool flip = rnd.nextInt(2) == 0;
                if (flip) {       // colours swapped, board turned upside down
                    std::string rows[8]; int ri = 0;
                    for (char ch : fen.substr(0, fen.find(' '))) { if (ch == '/') ri++; else rows[ri] += (char)(isalpha(ch) ? (isupper(ch) ? tolower(ch) : toupper(ch)) : ch); }
                    std::string f2;
                    for (int r = 7; r >= 0; r--) { f2 += rows[r]; if (r) f2 += '/'; }
                    fen = f2 + " b - " + (char)('a' + xb) + "3 0 1";
                }
                Position pos;
                try { pos = TextIO::readFEN(fen); } catch (const ChessParseError&) { continue; }
                if (!pos.getEpSquare().isValid()) continue;
                MoveList ml; legalMoves(pos, ml);
                for (int i = 0; i < ml.size; i++) {
                    int pc = pos.getPiece(ml[i].from());
                    if ((pc != Piece::WPAWN && pc != Piece::BPAWN) || ml[i].to() != pos.getEpSquare()) continue;
                    UndoInfo ui; pos.makeMove(ml[i], ui);
                    MoveList rl; legalMoves(pos, rl);
                    bool mate = rl.size == 0 && MoveGen::inCheck(pos);
                    pos.unMakeMove(ml[i], ui);
                    if (mate) { printf("{\"fen\":\"%s\",\"n\":1,\"family\":\"ep-rank-discovery\"}\n", TextIO::toFEN(pos).c_str()); have++; emitted++; break; }
                }
            }
        }
        for (long tries = 0; tries < 3000000 && emitted < count; tries++) {
            RawPos r = gen.gen();
            r.hmc = 0;
            Position pos;
            try { pos = TextIO::readFEN(rawFen(r)); } catch (const ChessParseError&) { continue; }
            MoveList ml;
            legalMoves(pos, ml);
            for (int i = 0; i < ml.size; i++) {
                Move m = ml[i];
                int p = pos.getPiece(m.from());
                bool castle = (p == Piece::WKING || p == Piece::BKING) && std::abs(m.to().asInt() - m.from().asInt()) == 2;
                bool ep = (p == Piece::WPAWN || p == Piece::BPAWN) && m.to() == pos.getEpSquare();
                bool promo = m.promoteTo() != Piece::EMPTY;
                UndoInfo ui;
                pos.makeMove(m, ui);
                MoveList rl;
                legalMoves(pos, rl);
                bool mate = rl.size == 0 && MoveGen::inCheck(pos);
                int type = -1;
                if (mate) {
                    // count checkers: squares of the mover's pieces attacking the king
                    Square k = pos.getKingSq(pos.isWhiteMove());
                    int checkers = 0; bool moverChecks = false;
                    for (int sq = 0; sq < 64; sq++) {
                        int q = pos.getPiece(Square(sq));
                        if (q == Piece::EMPTY || Piece::isWhite(q) == pos.isWhiteMove()) continue;
                        Position t(pos);
                        // remove every other enemy piece and test whether this one alone gives check
                        for (int s2 = 0; s2 < 64; s2++) {
                            int q2 = t.getPiece(Square(s2));
                            if (s2 != sq && q2 != Piece::EMPTY && Piece::isWhite(q2) != pos.isWhiteMove() && q2 != Piece::WKING && q2 != Piece::BKING)
                                t.setPiece(Square(s2), Piece::EMPTY);
                        }
                        if (MoveGen::inCheck(t)) { checkers++; if (Square(sq) == m.to()) moverChecks = true; }
                    }
                    if (castle) type = 0; else if (ep) type = 1; else if (promo) type = 2;
                    else if (checkers >= 2) type = 4; else if (!moverChecks) type = 3;
                }
                pos.unMakeMove(m, ui);
                if (type >= 0 && got[type] * 5 <= emitted + 4) {
                    printf("{\"fen\":\"%s\",\"n\":1,\"family\":\"%s\"}\n", TextIO::toFEN(pos).c_str(), names[type]);
                    got[type]++; emitted++;
                    break;
                }
            }
        }
        return 0;
    }
    if (mode == "cert") {
        std::string line;
        while (std::getline(std::cin, line)) {
            std::stringstream ss(line);
            std::string tag, fen, ns, kind;
            std::getline(ss, tag, '|'); std::getline(ss, fen, '|'); std::getline(ss, ns, '|'); std::getline(ss, kind, '|');
            int n = atoi(ns.c_str());
            Position pos = TextIO::readFEN(fen);
            if (kind.compare(0, 10, "lostafter:") == 0) {       // claim about the position after the given move
                Move m = TextIO::uciStringToMove(kind.substr(10));
                MoveList ml0;
                legalMoves(pos, ml0);
                bool legal = false;
                for (int i = 0; i < ml0.size; i++) if (ml0[i] == m) legal = true;
                if (!legal) { std::cout << "{\"tag\":\"" << tag << "\",\"n\":" << ns << ",\"kind\":\"lost\",\"result\":\"undecided\"}\n"; continue; }
                UndoInfo ui0;
                pos.makeMove(m, ui0);
                kind = "lost";
            }
            std::string out = "{\"tag\":\"" + tag + "\",\"n\":" + ns + ",\"kind\":\"" + kind + "\",";
            if (kind == "win") {
                std::string t;
                nodeBudget = 3000000;
                if (prove(pos, n, t)) out += "\"result\":\"proof\",\"tree\":" + t + "}";
                else if (nodeBudget < 0) out += "\"result\":\"undecided\"}";
                else {
                    std::string u;
                    if (n <= 2 && refute(pos, n, u)) out += "\"result\":\"refutation\",\"tree\":" + u + "}";
                    else out += "\"result\":\"unproved\"}";   // solver found no mate but no (checkable) refutation either
                }
            } else {
                // lost within n: every move loses to a mate in <= n
                MoveList ml;
                legalMoves(pos, ml);
                bool ok = ml.size > 0;
                std::string ts = "[";
                nodeBudget = 3000000;
                for (int i = 0; i < ml.size && ok; i++) {
                    UndoInfo ui;
                    pos.makeMove(ml[i], ui);
                    std::string t;
                    ok = prove(pos, n, t);
                    pos.unMakeMove(ml[i], ui);
                    if (ok) { if (i) ts += ','; ts += "[" + mvJ(ml[i]) + "," + t + "]"; }
                }
                ts += "]";
                if (ok) out += "\"result\":\"lost\",\"tree\":" + ts + "}";
                else out += std::string("\"result\":\"") + (nodeBudget < 0 ? "undecided" : "unproved") + "\"}";
            }
            std::cout << out << "\n";
        }
        return 0;
    }
    return 2;
}
