// C16 trace recorder for the proof-game tool.
//   h_proof games   <seed> <n> <gamesOut> <fensOut>       random legal games from the initial position (1..150 plies, >= 26 men kept)
//   h_proof convert <gamesFile> <filterOutput> <traceOut>  join the games with `texelutil proofgame -f -o` verdicts; SAN proofs -> coordinates
//   (games: optional 6th argument = least number of men kept, default 26; 7th argument "shuffle" = short games with repetitions)
//   h_proof pgn     <gamesFile> <outDir>                   one PGN file per game
//   h_proof bounds  <seed> <gamesFile> <traceOut> <perGame> ProofGame::distLowerBound(prefix -> final) against the game's own continuation
#include "hcommon.hpp"
#include "proofgame.hpp"
#include <fstream>
#include <iostream>
#include <sstream>
#include <climits>

using namespace vh;

class ProofGameTest {
public:
    static int bound(const std::string& startFen, const std::string& goalFen, Position& start) {
        std::ostringstream log;
        ProofGame pg(startFen, goalFen, false, {}, false, log);
        return pg.distLowerBound(start);
    }
};

static std::string movesJ(const std::vector<Move>& ms) { std::string s = "["; for (size_t i = 0; i < ms.size(); i++) { if (i) s += ','; s += mvJ(ms[i]); } return s + "]"; }

static std::vector<std::vector<Move>> readGames(const std::string& f) {
    std::vector<std::vector<Move>> games;
    std::ifstream is(f);
    std::string line;
    while (std::getline(is, line)) {
        std::istringstream ss(line);
        std::vector<Move> g;
        std::string tok;
        while (ss >> tok) g.push_back(TextIO::uciStringToMove(tok));
        games.push_back(g);
    }
    return games;
}

int main(int argc, char** argv) {
    if (argc < 2) return 2;
    std::string mode = argv[1];
    vh::init();
    if (mode == "games") {
        U64 seed = std::stoull(argv[2]);
        int n = atoi(argv[3]);
        std::ofstream gos(argv[4]), fos(argv[5]);
        Random rnd(seed, 0xC16);
        const int minMen = argc > 6 ? atoi(argv[6]) : 26;
        // "shuffle": short games that return to earlier positions and leave them by a different move (initial paths for 'proofgame -ipgn')
        const bool shuffle = argc > 7 && std::string(argv[7]) == "shuffle";
        for (int g = 0; g < n; g++) {
            Position pos = TextIO::readFEN(TextIO::startPosFEN);
            const bool pawnRush = rnd.nextInt(4) == 0;
            const bool kingWalk = !pawnRush && rnd.nextInt(4) == 0;    // kings leave home early and wander among the pawns (deadlock / blocked-square rules)      // games in which pawns run (promotions, en passant, long pawn paths)
            int plies = 1 + rnd.nextInt(shuffle ? 30 : 150);
            int shState = 0; Move backA, backB, firstOfShuffle;      // shuffle state machine
            if (rnd.nextInt(3) == 0) plies = 1 + rnd.nextInt(24);
            if (rnd.nextInt(6) == 0) plies = 1 + rnd.nextInt(5);      // very short games: the last moves are forced (retro analysis)
            std::string line;
            for (int p = 0; p < plies; p++) {
                MoveList ml; legalMoves(pos, ml);
                if (ml.size == 0) break;
                Move m;
                for (int t = 0; t < 30; t++) {
                    m = ml[rnd.nextInt(ml.size)];
                    bool cap = pos.getPiece(m.to()) != Piece::EMPTY || ((pos.getPiece(m.from()) == Piece::WPAWN || pos.getPiece(m.from()) == Piece::BPAWN) && m.to() == pos.getEpSquare());
                    bool pawnMv = pos.getPiece(m.from()) == Piece::WPAWN || pos.getPiece(m.from()) == Piece::BPAWN;
                    if (pawnRush && !pawnMv && t < 3) { m = Move(); continue; }
                    if (!cap || pos.nPieces() > minMen) break;      // keep at least minMen men
                    m = Move();
                }
                if (m.isEmpty()) break;
                bool forced = false;
                if (kingWalk && p >= 2 && rnd.nextInt(5) < 2)
                    for (int t = 0; t < 12; t++) { const Move& c = ml[rnd.nextInt(ml.size)]; int pc = pos.getPiece(c.from()); if ((pc == Piece::WKING || pc == Piece::BKING) && pos.getPiece(c.to()) == Piece::EMPTY) { m = c; forced = true; break; } }
                if (shuffle) {
                    auto quiet = [&](const Move& x) { int pc = pos.getPiece(x.from()); return (pc == Piece::WKNIGHT || pc == Piece::BKNIGHT || pc == Piece::WBISHOP || pc == Piece::BBISHOP ||
                                                                                                pc == Piece::WQUEEN || pc == Piece::BQUEEN) && pos.getPiece(x.to()) == Piece::EMPTY; };
                    auto legalNow = [&](const Move& x) { for (int i = 0; i < ml.size; i++) if (ml[i] == x) return true; return false; };
                    if (shState == 0 && rnd.nextInt(4) == 0 && p + 5 <= plies) {
                        for (int t = 0; t < 20; t++) { const Move& c = ml[rnd.nextInt(ml.size)]; if (quiet(c)) { m = c; backA = Move(c.to(), c.from(), Piece::EMPTY); firstOfShuffle = c; shState = 1; forced = true; break; } }
                    } else if (shState == 1) {
                        shState = 0;
                        for (int t = 0; t < 20; t++) { const Move& c = ml[rnd.nextInt(ml.size)]; if (quiet(c)) { m = c; backB = Move(c.to(), c.from(), Piece::EMPTY); shState = 2; forced = true; break; } }
                    } else if (shState == 2) {
                        shState = 0;
                        if (legalNow(backA)) { m = backA; shState = 3; forced = true; }
                    } else if (shState == 3) {
                        shState = 0;
                        if (legalNow(backB)) { m = backB; shState = 4; forced = true; }
                    } else if (shState == 4) {
                        shState = 0;                      // the position before the shuffle is on the board again: leave it by another move
                        for (int t = 0; t < 20 && m == firstOfShuffle; t++) m = ml[rnd.nextInt(ml.size)];
                        forced = true;
                    }
                }
                // prefer castling / double pushes now and then (castling rights and ep state in the goal position)
                for (int i = 0; i < ml.size && !forced && rnd.nextInt(6) == 0; i++) {
                    int pc = pos.getPiece(ml[i].from());
                    if ((pc == Piece::WKING || pc == Piece::BKING) && std::abs(ml[i].to().asInt() - ml[i].from().asInt()) == 2) { m = ml[i]; break; }
                }
                // pieces capturing rooks / minor pieces at home (goals where a castling right survives although rooks were lost)
                if (!forced && pos.nPieces() > minMen && rnd.nextInt(3) == 0)
                    for (int i = 0; i < ml.size; i++) {
                        int pc = pos.getPiece(ml[i].from()), victim = pos.getPiece(ml[i].to());
                        bool pawn = pc == Piece::WPAWN || pc == Piece::BPAWN;
                        if (!pawn && (victim == Piece::WROOK || victim == Piece::BROOK)) { m = ml[i]; break; }
                    }
                if (!forced && pos.getEpSquare().isValid() && rnd.nextInt(2) == 0 && pos.nPieces() > minMen)
                    for (int i = 0; i < ml.size; i++) {
                        int pc = pos.getPiece(ml[i].from());
                        if ((pc == Piece::WPAWN || pc == Piece::BPAWN) && ml[i].to() == pos.getEpSquare()) { m = ml[i]; break; }
                    }
                UndoInfo ui; pos.makeMove(m, ui);
                line += (line.empty() ? "" : " ") + TextIO::moveToUCIString(m);
            }
            gos << line << "\n";
            // the position as FEN: with the en-passant square only if the capture is really possible (Position::makeMove also sets it when
            // the capturing pawn is pinned - known finding C02 pseudo-ep; the tool rejects such a FEN as "lossy", which is about the text)
            { Position f(pos); TextIO::fixupEPSquare(f); fos << TextIO::toFEN(f) << "\n"; }
        }
        return 0;
    }
    if (mode == "promogames") {   // h_proof promogames <seed> <n> <gamesOut> <fensOut>
        // Short games built around ONE promotion: a pawn of one side runs (captures towards the last rank when blocked) and promotes to a
        // piece drawn uniformly from Q, R, B, N; the other side first plays a small set-up (nothing, a few pawn pushes next to the
        // runner's file, or a fianchetto whose bishop the runner takes on its way into the corner) and then random moves that leave the
        // runner alone.  The goal positions have a promoted piece standing where its ordinary approaches may all be blocked - the cases
        // the distance heuristic decides by its promotion rules (one per piece type and colour).
        U64 seed = std::stoull(argv[2]);
        int n = atoi(argv[3]);
        std::ofstream gos(argv[4]), fos(argv[5]);
        Random rnd(seed, 0xC17);
        long promoted = 0;
        for (int g = 0; g < n; g++) {
            Position pos = TextIO::readFEN(TextIO::startPosFEN);
            const bool runnerWhite = rnd.nextInt(2) == 0;
            int runnerSq = (runnerWhite ? 8 : 48) + rnd.nextInt(8);
            if (rnd.nextInt(2) == 0) runnerSq = (runnerWhite ? 8 : 48) + (rnd.nextInt(2) ? 0 : 7);      // rook pawns: the way into the corner
            const int file = runnerSq % 8;
            static const int promoW[] = {Piece::WQUEEN, Piece::WROOK, Piece::WBISHOP, Piece::WKNIGHT};
            const int promoIdx = rnd.nextInt(4);
            // set-up of the other side, written for a white helper (black runner) and mirrored for a black helper
            std::vector<std::string> setup;
            int menu = rnd.nextInt(4);
            auto fileCh = [](int f) { return std::string(1, (char)('a' + f)); };
            if (menu == 0 && (file == 0 || file == 7)) {
                setup = file == 7 ? std::vector<std::string>{"g2g3", "f1g2"} : std::vector<std::string>{"b2b3", "c1b2"};
            } else if (menu == 1) {
                for (int k = 0; k < 1 + (int)rnd.nextInt(3); k++) {
                    int f = file + (int)rnd.nextInt(5) - 2;
                    if (f < 0 || f > 7) continue;
                    setup.push_back(fileCh(f) + "2" + fileCh(f) + "3");
                }
            } else if (menu == 2) {
                int f = file == 0 ? 1 : file == 7 ? 6 : file + (rnd.nextInt(2) ? 1 : -1);
                setup.push_back(fileCh(f) + "2" + fileCh(f) + "3");
            }
            if (runnerWhite)
                for (auto& mv : setup) { mv[1] = (char)('1' + ('8' - mv[1])); mv[3] = (char)('1' + ('8' - mv[3])); }
            size_t setupIdx = 0;
            std::string line;
            int after = -1;
            for (int p = 0; p < 60; p++) {
                MoveList ml; legalMoves(pos, ml);
                if (ml.size == 0) break;
                Move m;
                const bool runnerTurn = pos.isWhiteMove() == runnerWhite;
                if (after >= 0) {
                    if (after-- == 0) break;
                    m = ml[rnd.nextInt(ml.size)];
                } else if (runnerTurn) {
                    std::vector<Move> rm;
                    for (int i = 0; i < ml.size; i++)
                        if (ml[i].from().asInt() == runnerSq) {
                            if (ml[i].promoteTo() != Piece::EMPTY && ml[i].promoteTo() != promoW[promoIdx] + (runnerWhite ? 0 : 6)) continue;
                            rm.push_back(ml[i]);
                        }
                    if (!rm.empty()) {
                        m = rm[rnd.nextInt((int)rm.size())];
                        // prefer going straight while possible (captures only when there is a reason: they are always offered too)
                        for (const Move& c : rm) if (c.to().getX() == c.from().getX() && rnd.nextInt(3)) { m = c; break; }
                    } else {
                        for (int t = 0; t < 40; t++) {       // waiting move: a piece, not a pawn, no capture
                            const Move& c = ml[rnd.nextInt(ml.size)];
                            int pc = pos.getPiece(c.from());
                            if (pc != Piece::WPAWN && pc != Piece::BPAWN && pos.getPiece(c.to()) == Piece::EMPTY) { m = c; break; }
                        }
                        if (m.isEmpty()) m = ml[rnd.nextInt(ml.size)];
                    }
                } else {
                    while (setupIdx < setup.size() && m.isEmpty()) {
                        Move want = TextIO::uciStringToMove(setup[setupIdx++]);
                        for (int i = 0; i < ml.size; i++) if (ml[i] == want) m = want;
                    }
                    for (int t = 0; t < 60 && m.isEmpty(); t++) {
                        const Move& c = ml[rnd.nextInt(ml.size)];
                        if (c.to().asInt() == runnerSq) continue;                       // the runner is not taken
                        if (pos.getPiece(c.to()) != Piece::EMPTY && rnd.nextInt(4)) continue;
                        // men the runner may want to take (two ranks ahead of it, neighbouring files) stay where they are
                        int dy = c.from().getY() - (runnerSq / 8), dx = c.from().getX() - file;
                        if (std::abs(dx) <= 1 && (runnerWhite ? (dy >= 1 && dy <= 2) : (dy <= -1 && dy >= -2)) && rnd.nextInt(5)) continue;
                        m = c;
                    }
                    if (m.isEmpty()) m = ml[rnd.nextInt(ml.size)];
                }
                const bool wasRunner = m.from().asInt() == runnerSq && runnerTurn && after < 0;
                UndoInfo ui; pos.makeMove(m, ui);
                line += (line.empty() ? "" : " ") + TextIO::moveToUCIString(m);
                if (wasRunner) {
                    runnerSq = m.to().asInt();
                    if (m.promoteTo() != Piece::EMPTY) { after = rnd.nextInt(5); promoted++; }
                } else if (after < 0 && pos.getPiece(Square(runnerSq)) != (runnerWhite ? Piece::WPAWN : Piece::BPAWN)) {
                    after = rnd.nextInt(3);             // the runner was lost after all: end the game soon
                }
            }
            gos << line << "\n";
            { Position f(pos); TextIO::fixupEPSquare(f); fos << TextIO::toFEN(f) << "\n"; }
        }
        printf("{\"games\":%d,\"with_promotion\":%ld}\n", n, promoted);
        return 0;
    }
    if (mode == "pgn") {        // h_proof pgn <gamesFile> <outDir>: game k as <outDir>/g<k>.pgn (initial paths for 'proofgame -ipgn')
        auto games = readGames(argv[2]);
        for (size_t k = 0; k < games.size(); k++) {
            std::ofstream pg(std::string(argv[3]) + "/g" + std::to_string(k) + ".pgn");
            pg << "[Event \"x\"]\n[Result \"*\"]\n\n";
            Position p = TextIO::readFEN(TextIO::startPosFEN);
            for (const Move& m : games[k]) {
                if (p.isWhiteMove()) pg << p.getFullMoveCounter() << ". ";
                pg << TextIO::moveToString(p, m, false) << " ";
                UndoInfo ui; p.makeMove(m, ui);
            }
            pg << "*\n";
        }
        return 0;
    }
    if (mode == "convert") {
        auto games = readGames(argv[2]);
        std::ifstream is(argv[3]);
        std::ofstream os(argv[4]);
        os << "{\"e\":\"Meta\",\"check\":\"C16\"}\n";
        std::string line;
        size_t gi = 0;
        long legal = 0, unknown = 0, illegal = 0;
        while (std::getline(is, line) && gi < games.size()) {
            // <fen 6 fields> <verdict>: tokens...
            std::istringstream ss(line);
            std::string fen, tok;
            for (int i = 0; i < 6; i++) { ss >> tok; fen += (i ? " " : "") + tok; }
            std::string verdict; ss >> verdict;
            if (!verdict.empty() && verdict.back() == ':') verdict.pop_back();
            std::vector<Move> proof;
            bool hasProof = false, parsed = true;
            std::string rest; std::getline(ss, rest);
            size_t pp = rest.find("proof:");
            if (pp != std::string::npos) {
                hasProof = true;
                std::istringstream ps(rest.substr(pp + 6));
                Position p = TextIO::readFEN(TextIO::startPosFEN);
                std::string san;
                while (ps >> san) {
                    if (san.back() == ':') break;
                    Move m = TextIO::stringToMove(p, san);
                    if (m.isEmpty()) { parsed = false; break; }
                    proof.push_back(m);
                    UndoInfo ui; p.makeMove(m, ui);
                }
            }
            Position goal = TextIO::readFEN(fen);
            os << "{\"e\":\"PG\",\"game\":" << movesJ(games[gi]) << ",\"goal\":{" << posFieldsJ(goal) << "},\"fen\":\"" << fen << "\",\"verdict\":\"" << verdict
               << "\",\"hasProof\":" << (hasProof ? "true" : "false") << ",\"proofParsed\":" << (parsed ? "true" : "false") << ",\"proof\":" << movesJ(proof)
               << ",\"raw\":\"" << jsonEsc(rest.substr(0, 300)) << "\"}\n";
            if (verdict == "legal") legal++; else if (verdict == "illegal") illegal++; else unknown++;
            gi++;
        }
        printf("{\"positions\":%zu,\"legal\":%ld,\"unknown\":%ld,\"illegal\":%ld}\n", gi, legal, unknown, illegal);
        return 0;
    }
    if (mode == "bounds") {
        U64 seed = std::stoull(argv[2]);
        auto games = readGames(argv[3]);
        std::ofstream os(argv[4]);
        int per = atoi(argv[5]);
        const bool pairsOnly = argc > 6 && std::string(argv[6]) == "kingpairs";     // only the deadlock-rule pairs (many games, few samples)
        os << "{\"e\":\"Meta\",\"check\":\"C16\"}\n";
        Random rnd(seed, 0xB16);
        long n = 0;
        for (auto& g : games) {
            if (g.empty()) continue;
            std::vector<Position> ps;
            Position pos = TextIO::readFEN(TextIO::startPosFEN);
            ps.push_back(pos);
            for (const Move& m : g) { UndoInfo ui; pos.makeMove(m, ui); ps.push_back(pos); }
            // plies whose move is special for the distance heuristic: en-passant captures, castling, promotions
            std::vector<int> special;
            for (size_t i = 0; i < g.size(); i++) {
                int pc = ps[i].getPiece(g[i].from());
                bool pawn = pc == Piece::WPAWN || pc == Piece::BPAWN;
                bool kingMv = pc == Piece::WKING || pc == Piece::BKING;
                bool tightKing = false;       // a king that has to move and has at most two squares to go to (deadlock rules look at exactly that)
                if (kingMv) {
                    Position tmp(ps[i]);
                    MoveList kl; legalMoves(tmp, kl);
                    int nk = 0;
                    for (int q = 0; q < kl.size; q++) if (kl[q].from() == g[i].from()) nk++;
                    tightKing = nk <= 2;
                }
                if ((pawn && g[i].to() == ps[i].getEpSquare()) || g[i].promoteTo() != Piece::EMPTY || tightKing ||
                    (kingMv && std::abs(g[i].to().asInt() - g[i].from().asInt()) == 2))
                    special.push_back((int)i);
            }
            const int nSpecial = std::min<int>((int)special.size(), 10) * 2;
            // pairs for the deadlock rules: a king that has no free square right now (every neighbour occupied or attacked by an enemy pawn),
            // moves a little later, and nothing is captured in between (those rules only apply when no capture is left)
            std::vector<std::pair<int,int>> kingPairs;
            for (int c = 0; c < 2; c++) {
                for (size_t i = 0; i + 1 < ps.size() && kingPairs.size() < 24; i++) {
                    const Position& q = ps[i];
                    Square k = c == 0 ? q.wKingSq() : q.bKingSq();
                    U64 free = BitBoard::kingAttacks(k) & ~q.occupiedBB();
                    free &= c == 0 ? ~BitBoard::bPawnAttacksMask(q.pieceTypeBB(Piece::BPAWN)) : ~BitBoard::wPawnAttacksMask(q.pieceTypeBB(Piece::WPAWN));
                    if (free != 0) continue;
                    for (size_t m = i; m < g.size() && m < i + 16; m++) {
                        if (ps[m + 1].nPieces() != q.nPieces()) break;                    // a capture: rules not applicable
                        if (g[m].from() == (c == 0 ? ps[m].wKingSq() : ps[m].bKingSq())) { kingPairs.push_back({(int)i, (int)m + 1}); break; }
                    }
                }
            }
            const int nNear = per / 2 + (int)kingPairs.size();      // goals a few plies ahead: usually no capture in between, so the no-capture-left rules (deadlocks) apply
            for (int k = pairsOnly ? per + nSpecial + per / 2 : 0; k < per + nSpecial + nNear; k++) {
                // the goal is the final position of the game or of one of its prefixes (itself a legal game from the initial position)
                int j = (k < 2 || rnd.nextInt(2) == 0) ? (int)g.size() : 1 + rnd.nextInt((int)g.size());
                int i = rnd.nextInt(j + 1);
                if (k == 0) i = 0;
                if (k == 1) i = j;
                if (k >= per + nSpecial) {
                    i = rnd.nextInt((int)g.size());
                    j = std::min<int>((int)g.size(), i + 1 + rnd.nextInt(4));
                    int kp = k - (per + nSpecial) - per / 2;
                    if (kp >= 0 && kp < (int)kingPairs.size()) { i = kingPairs[kp].first; j = kingPairs[kp].second; }
                } else if (k >= per) {              // start right before a special move; goal: shortly after it, or the end of the game
                    i = special[rnd.nextInt((int)special.size())];
                    j = ((k - per) & 1) ? (int)g.size() : std::min<int>((int)g.size(), i + 1 + rnd.nextInt(6));
                }
                Position goal(ps[j]);
                TextIO::fixupEPSquare(goal);
                std::string goalFen = TextIO::toFEN(goal);
                Position start(ps[i]);
                TextIO::fixupEPSquare(start);
                int b = ProofGameTest::bound(TextIO::toFEN(start), goalFen, start);
                os << "{\"e\":\"Bound\",\"ply\":" << i << ",\"remaining\":" << (j - i) << ",\"bound\":" << (b == INT_MAX ? 1000000 : b)
                   << ",\"start\":\"" << TextIO::toFEN(start) << "\",\"goal\":\"" << goalFen << "\"}\n";
                n++;
            }
        }
        printf("{\"bounds\":%ld}\n", n);
        return 0;
    }
    return 2;
}
