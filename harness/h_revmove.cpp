// C15 trace recorder: reverse move generation vs forward moves.
//  RevC: completeness - for positions P of random games and every legal move m of P, the
//        entries of RevMoveGen::genMoves(Q) (Q = P after m) whose move equals m.
//  RevQ: consistency - a sample of the un-moves listed for Q, each with the predecessor
//        that the real Position::unMakeMove restores.
// usage: h_revmove <seed> <nGames> <nSynthetic> <outPrefix> <nFiles>
#include "hcommon.hpp"
#include "hgen.hpp"
#include "revmovegen.hpp"
#include <fstream>
#include <iostream>
#include <set>

using namespace vh;

static std::string umJ(const UnMove& um) {
    char buf[96];
    snprintf(buf, sizeof(buf), "[%d,%d,%d,%d,%d,%d]", um.move.from().asInt(), um.move.to().asInt(), um.move.promoteTo(),
             um.ui.capturedPiece, um.ui.castleMask, um.ui.epSquare.asInt());
    return buf;
}

struct St { long revc = 0, revq = 0, ums = 0, sampled = 0, ep = 0, castle = 0, promoCap = 0; std::set<U64> distinct; };

static void emitForPosition(std::ostream& os, Position& pos, Random& rnd, St& st) {
    MoveList ml;
    legalMoves(pos, ml);
    Position P(pos);
    TextIO::fixupEPSquare(P);     // RevMoveGen works on FEN-normalised positions (ep square only if a capture is legal)
    for (int i = 0; i < ml.size; i++) {
        const Move& m = ml[i];
        Position Q(P);
        UndoInfo ui;
        Q.makeMove(m, ui);
        TextIO::fixupEPSquare(Q);
        std::string s = "{\"e\":\"RevC\",\"p\":{" + posFieldsJ(P) + "},\"m\":" + mvJ(m) + ",\"q\":{" + posFieldsJ(Q) + "}";
        for (int all = 0; all < 2; all++) {
            std::vector<UnMove> ums;
            RevMoveGen::genMoves(Q, ums, all == 1);
            s += all ? ",\"t\":[" : ",\"f\":[";
            bool first = true;
            for (const UnMove& um : ums) {
                if (!(um.move.from() == m.from() && um.move.to() == m.to() && um.move.promoteTo() == m.promoteTo())) continue;
                if (!first) s += ',';
                first = false;
                s += umJ(um);
            }
            s += "]";
        }
        s += "}";
        os << s << "\n";
        st.revc++;
        int p = P.getPiece(m.from());
        if ((p == Piece::WPAWN || p == Piece::BPAWN) && m.to() == P.getEpSquare()) st.ep++;
        if ((p == Piece::WKING || p == Piece::BKING) && std::abs(m.to().asInt() - m.from().asInt()) == 2) st.castle++;
        if (m.promoteTo() != Piece::EMPTY && P.getPiece(m.to()) != Piece::EMPTY) st.promoCap++;
        st.distinct.insert(Q.zobristHash() ^ hashU64(m.from().asInt() * 64 + m.to().asInt()));
    }
}

static void emitConsistency(std::ostream& os, const Position& Q0, Random& rnd, St& st, int maxSample) {
    Position Q(Q0);
    TextIO::fixupEPSquare(Q);
    for (int all = 0; all < 2; all++) {
        if (all == 1 && rnd.nextInt(3) != 0) continue;
        std::vector<UnMove> ums;
        RevMoveGen::genMoves(Q, ums, all == 1);
        st.ums += ums.size();
        std::string s = "{\"e\":\"RevQ\",\"all\":" + std::string(all ? "true" : "false") + ",\"n\":" + std::to_string(ums.size())
                      + ",\"q\":{" + posFieldsJ(Q) + "},\"ums\":[";
        int n = (int)ums.size();
        bool first = true;
        for (int i = 0; i < n; i++) {
            if (n > maxSample && rnd.nextInt(n) >= maxSample) continue;
            Position pred(Q);
            pred.unMakeMove(ums[i].move, ums[i].ui);
            if (!first) s += ',';
            first = false;
            s += "{\"um\":" + umJ(ums[i]) + "," + posFieldsJ(pred) + "}";
            st.sampled++;
        }
        s += "]}";
        os << s << "\n";
        st.revq++;
    }
}

int main(int argc, char** argv) {
    if (argc < 6) { fprintf(stderr, "usage: h_revmove seed nGames nSynthetic outPrefix nFiles\n"); return 2; }
    U64 seed = std::stoull(argv[1]);
    int nGames = atoi(argv[2]), nSyn = atoi(argv[3]);
    std::string prefix = argv[4];
    int nFiles = atoi(argv[5]);
    vh::init();
    std::vector<std::ofstream> out(nFiles);
    for (int k = 0; k < nFiles; k++) {
        out[k].open(prefix + "." + std::to_string(k) + ".ndjson");
        out[k] << "{\"e\":\"Meta\",\"check\":\"C15\",\"seed\":" << seed << "}\n";
    }
    Random rnd(seed, 0xC15);
    St st;
    std::vector<std::string> samples;
    const auto& fens = startFens();
    for (int g = 0; g < nGames; g++) {
        std::ofstream& os = out[g % nFiles];
        const std::string& fen = (g % 3 == 0) ? fens[0] : fens[rnd.nextInt((int)fens.size())];
        Position pos = TextIO::readFEN(fen);
        int maxPly = 30 + rnd.nextInt(120);
        for (int ply = 0; ply < maxPly; ply++) {
            MoveList ml;
            legalMoves(pos, ml);
            if (ml.size == 0 || pos.getHalfMoveClock() >= 100) break;
            if (rnd.nextInt(4) == 0) emitForPosition(os, pos, rnd, st);
            Move m = ml[rnd.nextInt(ml.size)];
            for (int i = 0; i < ml.size; i++) {   // bias to castling / ep / promotions
                int p = pos.getPiece(ml[i].from());
                bool special = ((p == Piece::WKING || p == Piece::BKING) && std::abs(ml[i].to().asInt() - ml[i].from().asInt()) == 2)
                            || ((p == Piece::WPAWN || p == Piece::BPAWN) && ml[i].to() == pos.getEpSquare())
                            || ml[i].promoteTo() != Piece::EMPTY;
                if (special && rnd.nextInt(3) == 0) { m = ml[i]; break; }
            }
            UndoInfo ui;
            pos.makeMove(m, ui);
            if (rnd.nextInt(6) == 0) emitConsistency(os, pos, rnd, st, 16);
        }
        if (g < 2) samples.push_back("game from " + fen + " ending in " + TextIO::toFEN(pos));
    }
    Gen gen(rnd);
    for (int i = 0; i < nSyn; i++) {
        std::ofstream& os = out[i % nFiles];
        Position pos;
        bool ok = false;
        for (int a = 0; a < 30 && !ok; a++) {
            RawPos r = gen.gen();
            try { pos = TextIO::readFEN(rawFen(r)); ok = true; } catch (const ChessParseError&) {}
        }
        if (!ok) continue;
        if (i < 2) samples.push_back("synthetic " + TextIO::toFEN(pos));
        emitForPosition(os, pos, rnd, st);
        MoveList ml;
        legalMoves(pos, ml);
        if (ml.size > 0) {
            UndoInfo ui;
            pos.makeMove(ml[rnd.nextInt(ml.size)], ui);
            if (rnd.nextInt(3) == 0) emitConsistency(os, pos, rnd, st, 12);
        }
    }
    for (auto& o : out) o.close();
    printf("{\"revc\":%ld,\"revq\":%ld,\"unmoves_listed\":%ld,\"unmoves_checked\":%ld,\"ep_moves\":%ld,\"castle_moves\":%ld,\"promo_captures\":%ld,\"distinct\":%zu,\"samples\":[",
           st.revc, st.revq, st.ums, st.sampled, st.ep, st.castle, st.promoCap, st.distinct.size());
    for (size_t i = 0; i < samples.size(); i++) printf("%s\"%s\"", i ? "," : "", jsonEsc(samples[i]).c_str());
    printf("]}\n");
    return 0;
}
