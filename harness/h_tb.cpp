// C12 trace recorder for on-demand tablebases.
//   h_tb rows  <class> <vec|tt> <all|N> <seed> <out>   rows {pcs, wtm, v|null, succ[[f,t,p,v|null]]} of placements of the class
//   h_tb scope <class> <seed> <N> <out>                positions outside the table's scope must be "not found"
//   h_tb abort <class> <seed> <out>                    abort injection at every phase boundary + hash traffic + probes
// <class> is e.g. KQK, KRKN, KKQ (white men, then black men).
#include "hcommon.hpp"
#include "tbgen.hpp"
#include "transpositionTable.hpp"
#include "verifhooks.hpp"
#include "constants.hpp"
#include <fstream>
#include <iostream>
#include <set>

using namespace vh;

struct Cls { PieceCount pc; std::vector<int> men; std::string name; };

static Cls parseClass(const std::string& s) {
    Cls c; c.name = s;
    c.pc = PieceCount{0, 0, 0, 0, 0, 0, 0, 0};
    bool white = true;
    c.men.push_back(Piece::WKING);
    for (size_t i = 1; i < s.size(); i++) {
        char ch = s[i];
        if (ch == 'K') { white = false; c.men.push_back(Piece::BKING); continue; }
        int p = 0;
        switch (ch) {
        case 'Q': p = white ? Piece::WQUEEN : Piece::BQUEEN; (white ? c.pc.nwq : c.pc.nbq)++; break;
        case 'R': p = white ? Piece::WROOK : Piece::BROOK; (white ? c.pc.nwr : c.pc.nbr)++; break;
        case 'B': p = white ? Piece::WBISHOP : Piece::BBISHOP; (white ? c.pc.nwb : c.pc.nbb)++; break;
        case 'N': p = white ? Piece::WKNIGHT : Piece::BKNIGHT; (white ? c.pc.nwn : c.pc.nbn)++; break;
        default: fprintf(stderr, "bad class %s\n", s.c_str()); exit(2);
        }
        c.men.push_back(p);
    }
    return c;
}

static std::string menJ(const Cls& c) {
    int cnt[13] = {0};
    for (int p : c.men) cnt[p]++;
    std::string s = "[";
    for (int p = 1; p <= 12; p++) { if (p > 1) s += ','; s += std::to_string(cnt[p]); }
    return s + "]";
}

static bool legalPlacement(Position& pos) {
    if (BitBoard::getKingDistance(pos.getKingSq(true), pos.getKingSq(false)) <= 1) return false;
    Position p2(pos);
    p2.setWhiteMove(!pos.isWhiteMove());
    return !MoveGen::inCheck(p2);
}

struct Prober {
    virtual bool probe(const Position& pos, int& score) = 0;
    virtual ~Prober() {}
};
struct VecProber : Prober {
    VectorStorage vs; TBGenerator<VectorStorage> gen;
    explicit VecProber(const PieceCount& pc) : gen(vs, pc) { RelaxedShared<S64> t(-1); gen.generate(t, false); }
    bool probe(const Position& pos, int& score) override { return gen.probeDTM(pos, 0, score); }
};
struct TTProber : Prober {
    TranspositionTable tt;
    bool ok;
    explicit TTProber(const Position& sample) : tt(512) {
        tt.reSize(1 << 20);          // 16 MB, enough to host a table
        RelaxedShared<S64> t(-1);
        ok = tt.updateTB(sample, t);
        // what happens to a table inside the hash table between its generation and its use: a few searches start on positions the
        // table does not cover (it stays resident for up to four of them) and store their results in the hash table
        if (ok) {
            Position foreign = TextIO::readFEN("4k3/pppp4/8/8/8/8/4PPPP/4K3 w - - 0 1");
            Random r(12345, 7);
            for (int k = 0; k < 3; k++) {
                if (!tt.updateTB(foreign, t)) break;
                for (int i = 0; i < 400000; i++) {
                    Move mv(Square(r.nextInt(64)), Square(r.nextInt(64)), 0);
                    mv.setScore(r.nextInt(1000));
                    tt.insert(r.nextU64(), mv, 1 + r.nextInt(3), 0, r.nextInt(50), 0);
                }
            }
        }
    }
    bool probe(const Position& pos, int& score) override { return tt.probeDTM(pos, 0, score); }
};

// 99999 = not found (TLC cannot compare an integer with JSON null)
static std::string valJ(bool found, int v) { return found ? std::to_string(v) : "99999"; }

static std::string rowJ(Position& pos, Prober& pr, const char* be) {
    int sc = 0;
    bool found = pr.probe(pos, sc);
    std::string s = "{\"e\":\"Row\",\"be\":\"" + std::string(be) + "\",\"pcs\":[";
    bool first = true;
    for (int sq = 0; sq < 64; sq++) {
        int p = pos.getPiece(Square(sq));
        if (p == Piece::EMPTY) continue;
        if (!first) s += ',';
        first = false;
        s += "[" + std::to_string(sq) + "," + std::to_string(p) + "]";
    }
    s += std::string("],\"wtm\":") + (pos.isWhiteMove() ? "true" : "false") + ",\"castle\":" + std::to_string(pos.getCastleMask())
       + ",\"v\":" + valJ(found, sc) + ",\"succ\":[";
    MoveList ml;
    legalMoves(pos, ml);
    for (int i = 0; i < ml.size; i++) {
        UndoInfo ui;
        Move m = ml[i];
        pos.makeMove(m, ui);
        int s2 = 0;
        bool f2 = pr.probe(pos, s2);
        pos.unMakeMove(m, ui);
        if (i) s += ',';
        s += "[" + std::to_string(m.from().asInt()) + "," + std::to_string(m.to().asInt()) + "," + std::to_string(m.promoteTo()) + "," + valJ(f2, s2) + "]";
    }
    return s + "]}";
}

static bool placeIdx(const Cls& c, U64 idx, Position& pos) {
    // idx enumerates (stm, sq of each man) over the raw 64^k * 2 space
    pos = Position();
    bool wtm = (idx & 1) == 0;
    idx >>= 1;
    for (size_t i = 0; i < c.men.size(); i++) {
        int sq = idx & 63;
        idx >>= 6;
        if (pos.getPiece(Square(sq)) != Piece::EMPTY) return false;
        pos.setPiece(Square(sq), c.men[i]);
    }
    pos.setWhiteMove(wtm);
    return legalPlacement(pos);
}

static RelaxedShared<S64>* gMaxT = nullptr;
static int gAbortPhase = -1, gAbortN = -1;
static bool gFired = false;
static void phaseHook(int phase, int n) {
    if (phase == gAbortPhase && n == gAbortN && gMaxT) {
        // phases 0/1 abort through the time limit test, phase 2 through the stop request (limit 0)
        *gMaxT = (phase == 2) ? 0 : 1;
        gFired = true;
    }
}

int main(int argc, char** argv) {
    if (argc < 2) return 2;
    std::string mode = argv[1];
    vh::init();
    if (mode == "rows") {
        Cls c = parseClass(argv[2]);
        std::string be = argv[3], how = argv[4];
        U64 seed = std::stoull(argv[5]);
        std::ofstream os(argv[6]);
        os << "{\"e\":\"Meta\",\"check\":\"C12\",\"class\":\"" << c.name << "\",\"be\":\"" << be << "\",\"men\":" << menJ(c) << "}\n";
        Position sample;
        {   // some legal placement of the class for updateTB
            Random r0(1);
            U64 space = 2ULL << (6 * c.men.size());
            while (!placeIdx(c, r0.nextU64() % space, sample)) {}
        }
        std::unique_ptr<Prober> pr;
        if (be == "vec") pr.reset(new VecProber(c.pc));
        else { TTProber* t = new TTProber(sample); pr.reset(t); if (!t->ok) { fprintf(stderr, "updateTB failed\n"); return 3; } }
        U64 space = 2ULL << (6 * c.men.size());
        long rows = 0, wins = 0, draws = 0;
        Random rnd(seed, 0xC12);
        Position pos;
        if (how == "all") {
            for (U64 idx = 0; idx < space; idx++)
                if (placeIdx(c, idx, pos)) { os << rowJ(pos, *pr, be.c_str()) << "\n"; rows++; }
        } else {
            long n = atol(how.c_str());
            while (rows < n)
                if (placeIdx(c, rnd.nextU64() % space, pos)) { os << rowJ(pos, *pr, be.c_str()) << "\n"; rows++; }
        }
        printf("{\"class\":\"%s\",\"be\":\"%s\",\"rows\":%ld,\"exhaustive\":%s}\n", c.name.c_str(), be.c_str(), rows, how == "all" ? "true" : "false");
        return 0;
    }
    if (mode == "scope") {
        Cls c = parseClass(argv[2]);
        U64 seed = std::stoull(argv[3]);
        long n = atol(argv[4]);
        std::ofstream os(argv[5]);
        os << "{\"e\":\"Meta\",\"check\":\"C12\",\"class\":\"" << c.name << "\",\"men\":" << menJ(c) << "}\n";
        VecProber pr(c.pc);
        Random rnd(seed, 0x5C0);
        static const char* outside[] = {
            "4k3/8/8/8/8/8/8/4K2R w K - 0 1", "r3k3/8/8/8/8/8/8/4K3 b q - 0 1", "4k3/8/8/8/8/8/4P3/4K3 w - - 0 1",
            "4k3/4p3/8/8/8/8/8/4K2Q w - - 0 1", "8/8/8/3k4/8/3K4/4Q3/4Q3 w - - 0 1", "8/8/8/3k4/8/3K4/4R3/4N3 b - - 0 1",
            "8/8/2b5/3k4/8/3K4/4R3/8 w - - 0 1", "3qk3/8/8/8/8/8/8/3QK2R w K - 0 1" };
        long rows = 0;
        for (int i = 0; i < 8; i++) {
            Position pos = TextIO::readFEN(outside[i]);
            // only positions whose material is NOT a sub-configuration of the class are outside by material;
            // castling rights / pawns are always outside.  The spec decides which rule applies.
            os << rowJ(pos, pr, "vec") << "\n"; rows++;
        }
        // random placements of *other* classes and of this class with castling flags
        static const char* others[] = {"KQK", "KRK", "KBK", "KNK", "KKQ", "KKR", "KQKR", "KRKB", "KBNK", "KQQK", "KRKR", "KNNK", "KKBN", "KQKQ"};
        Position pos;
        for (long k = 0; k < n; k++) {
            Cls o = parseClass(others[rnd.nextInt(14)]);
            U64 space = 2ULL << (6 * o.men.size());
            if (!placeIdx(o, rnd.nextU64() % space, pos)) { k--; continue; }
            os << rowJ(pos, pr, "vec") << "\n"; rows++;
        }
        printf("{\"class\":\"%s\",\"scope_rows\":%ld}\n", c.name.c_str(), rows);
        return 0;
    }
    if (mode == "abort") {
        Cls c = parseClass(argv[2]);
        U64 seed = std::stoull(argv[3]);
        std::ofstream os(argv[4]);
        os << "{\"e\":\"Meta\",\"check\":\"C12\",\"class\":\"" << c.name << "\",\"men\":" << menJ(c) << "}\n";
        verif::tbPhaseHook = phaseHook;
        Random rnd(seed, 0xAB0);
        U64 space = 2ULL << (6 * c.men.size());
        Position sample;
        while (!placeIdx(c, rnd.nextU64() % space, sample)) {}
        long scen = 0, probes = 0;
        // phases: (0,k) and (1,k) time-limit aborts inside the two classification passes, (2,n) stop request at iteration n
        std::vector<std::pair<int,int>> points;
        int chunks = (int)((10ULL << (6 * (c.men.size() - 1))) * 2 >> 16);   // nPositions / 65536
        for (int k = 0; k <= chunks; k += std::max(1, chunks / 3)) { points.push_back({0, k}); points.push_back({1, k}); }
        for (int n = 1; n <= 40; n += (n < 4 ? 1 : 6)) points.push_back({2, n});
        points.push_back({-1, -1});   // control: no abort
        for (auto pt : points) {
            TranspositionTable tt(512);
            tt.reSize(1 << 20);
            // pre-fill the whole table with ordinary hash entries so that an unfinished table region holds foreign bytes
            for (int i = 0; i < 3000000; i++)
                tt.insert(rnd.nextU64(), Move(Square(rnd.nextInt(64)), Square(rnd.nextInt(64)), 0), TType::T_EXACT, 1, 1 + rnd.nextInt(20), rnd.nextInt(200) - 100);
            // every other scenario: a table for other material is already resident (built by an earlier search) when the generation
            // for this class starts; an abort must not leave that older table answering from storage the new one has overwritten
            Cls prevCls = parseClass(c.name == "KRK" ? "KQK" : "KRK");
            const bool withPrev = (scen % 2) == 1;
            if (withPrev) {
                Position prevSample;
                U64 pspace = 2ULL << (6 * prevCls.men.size());
                while (!placeIdx(prevCls, rnd.nextU64() % pspace, prevSample)) {}
                RelaxedShared<S64> noLimit(-1);
                gMaxT = nullptr; gAbortPhase = -1; gFired = false;
                tt.updateTB(prevSample, noLimit);
            }
            RelaxedShared<S64> maxT(-1);
            if (pt.first >= 0) maxT = 1000000;   // a (large) time limit so that the limit tests are armed
            gMaxT = &maxT; gAbortPhase = pt.first; gAbortN = pt.second; gFired = false;
            bool ok = tt.updateTB(sample, maxT);
            auto st = tt.verifState();
            os << "{\"e\":\"TbGen\",\"phase\":" << pt.first << ",\"n\":" << pt.second << ",\"fired\":" << (gFired ? "true" : "false")
               << ",\"ok\":" << (ok ? "true" : "false") << ",\"resident\":" << (st.tbResident ? "true" : "false")
               << ",\"usedSize\":" << st.usedSize << ",\"tableSize\":" << st.tableSize << "}\n";
            // ordinary hash traffic afterwards
            for (int i = 0; i < 2000000; i++)
                tt.insert(rnd.nextU64(), Move(Square(rnd.nextInt(64)), Square(rnd.nextInt(64)), 0), TType::T_GE, 2, 1 + rnd.nextInt(30), rnd.nextInt(200) - 100);
            // a second updateTB as the next search would do (must not resurrect a half-built table), then probes
            RelaxedShared<S64> maxT2(100);   // too little time to generate: an honest "no table"
            gMaxT = nullptr;
            bool ok2 = tt.updateTB(sample, maxT2);
            auto st2 = tt.verifState();
            os << "{\"e\":\"TbAgain\",\"ok\":" << (ok2 ? "true" : "false") << ",\"resident\":" << (st2.tbResident ? "true" : "false")
               << ",\"usedSize\":" << st2.usedSize << ",\"tableSize\":" << st2.tableSize << "}\n";
            struct P : Prober { TranspositionTable& t; explicit P(TranspositionTable& t) : t(t) {} bool probe(const Position& p, int& s) override { return t.probeDTM(p, 0, s); } } pr(tt);
            Position pos;
            for (int k = 0; k < 60; k++) {
                while (!placeIdx(c, rnd.nextU64() % space, pos)) {}
                os << rowJ(pos, pr, "tt-after") << "\n"; probes++;
            }
            if (withPrev) {
                U64 pspace = 2ULL << (6 * prevCls.men.size());
                for (int k = 0; k < 60; k++) {
                    while (!placeIdx(prevCls, rnd.nextU64() % pspace, pos)) {}
                    os << rowJ(pos, pr, "tt-after-prev") << "\n"; probes++;
                }
            }
            scen++;
        }
        printf("{\"class\":\"%s\",\"abort_scenarios\":%ld,\"probes\":%ld}\n", c.name.c_str(), scen, probes);
        return 0;
    }
    return 2;
}
