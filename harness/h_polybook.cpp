// C18 trace recorder: probes of the opening book (built-in and polyglot files incl. damaged ones).
// usage: h_polybook <seed> <nBooks> <out> <tmpdir>
#include "hcommon.hpp"
#include "book.hpp"
#include "polyglot.hpp"
#include "parameters.hpp"
#include <fstream>
#include <iostream>
#include <map>
#include <algorithm>
#include <cstdio>

using namespace vh;

struct Ent { U64 key; U16 mv; U16 w; int posIdx; Move m; };

int main(int argc, char** argv) {
    if (argc < 5) return 2;
    U64 seed = std::stoull(argv[1]);
    int nBooks = atoi(argv[2]);
    std::ofstream os(argv[3]);
    std::string tmp = argv[4];
    vh::init();
    os << "{\"e\":\"Meta\",\"check\":\"C18\",\"seed\":" << seed << "}\n";
    Random rnd(seed, 0xC18);
    long probes = 0, files = 0;
    const int K = 400;
    auto probeJ = [&](const char* kind, int fileId, Position& pos, const std::vector<std::pair<Move,int>>& stored, int k) {
        std::map<std::string,int> got;
        std::map<std::string,Move> mv;
        for (int i = 0; i < k; i++) {
            Book book(false);
            Move m;
            book.getBookMove(pos, m);
            std::string key = m.isEmpty() ? "none" : mvJ(m);
            got[key]++; mv[key] = m;
        }
        os << "{\"e\":\"BookProbe\",\"kind\":\"" << kind << "\",\"file\":" << fileId << "," << posFieldsJ(pos) << ",\"k\":" << k << ",\"stored\":[";
        for (size_t i = 0; i < stored.size(); i++) os << (i ? "," : "") << "[" << stored[i].first.from().asInt() << "," << stored[i].first.to().asInt() << ","
                                                     << stored[i].first.promoteTo() << "," << stored[i].second << "]";
        os << "],\"none\":" << got["none"] << ",\"results\":[";
        bool first = true;
        for (auto& g : got) { if (g.first == "none") continue; if (!first) os << ','; first = false; os << g.first; }
        os << "]}\n";
        probes++;
    };
    // ---- built-in book along its own lines
    Parameters::instance().set("BookFile", "");
    for (int g = 0; g < 40 * nBooks; g++) {
        Position pos = TextIO::readFEN(TextIO::startPosFEN);
        for (int ply = 0; ply < 14; ply++) {
            std::vector<std::pair<Move,int>> none;
            if (rnd.nextInt(3) == 0) probeJ("builtin", -1, pos, none, 6);
            Book book(false);
            Move m;
            book.getBookMove(pos, m);
            MoveList ml; legalMoves(pos, ml);
            if (ml.size == 0) break;
            if (m.isEmpty() || rnd.nextInt(8) == 0) m = ml[rnd.nextInt(ml.size)];
            bool legal = false;
            for (int i = 0; i < ml.size; i++) if (ml[i] == m) legal = true;
            if (!legal) break;      // reported through the probe event above
            UndoInfo ui; pos.makeMove(m, ui);
        }
    }
    // ---- polyglot files
    for (int b = 0; b < nBooks; b++) {
        // abstract book: positions from short random games (castling-rich starts included)
        std::vector<Position> poss;
        std::vector<std::vector<std::pair<Move,int>>> stored;
        std::vector<Ent> ents;
        const auto& fens = startFens();
        int nPos = 5 + rnd.nextInt(40);
        for (int i = 0; i < nPos; i++) {
            Position pos = TextIO::readFEN(rnd.nextInt(3) ? fens[0] : fens[rnd.nextInt((int)fens.size())]);
            int plies = rnd.nextInt(12);
            for (int p = 0; p < plies; p++) { MoveList ml; legalMoves(pos, ml); if (ml.size == 0) break; UndoInfo ui; pos.makeMove(ml[rnd.nextInt(ml.size)], ui); }
            MoveList ml; legalMoves(pos, ml);
            if (ml.size == 0) continue;
            bool dup = false;
            for (auto& q : poss) if (PolyglotBook::getHashKey(q) == PolyglotBook::getHashKey(pos)) dup = true;
            if (dup) continue;
            int nm = 1 + rnd.nextInt(std::min(5, ml.size));
            // polyglot weights are 16-bit: a third of the positions use the upper part of the range (the ratios inside one position, and
            // with them the 400-probe argument, stay as they are)
            const int scale = rnd.nextInt(3) == 0 ? 300 : (rnd.nextInt(4) == 0 ? 150 : 1);
            std::vector<std::pair<Move,int>> st;
            for (int k = 0; k < nm; k++) {
                Move m = ml[rnd.nextInt(ml.size)];
                // prefer castling moves when available (polyglot encodes them as king-takes-rook)
                for (int j = 0; j < ml.size; j++) { int pc = pos.getPiece(ml[j].from()); if ((pc == Piece::WKING || pc == Piece::BKING) && std::abs(ml[j].to().asInt() - ml[j].from().asInt()) == 2 && rnd.nextInt(2)) m = ml[j]; }
                int w = rnd.nextInt(5) == 0 ? 0 : std::min(65535, (20 + rnd.nextInt(200)) * scale);
                st.push_back({m, w});
                ents.push_back({PolyglotBook::getHashKey(pos), PolyglotBook::getPGMove(pos, m), (U16)w, (int)poss.size(), m});
            }
            poss.push_back(pos);
            stored.push_back(st);
            // key structure (polyglot book format): removing one castling right / flipping the side to move changes the key by the
            // published constant for exactly that feature, whatever the rest of the position is
            {
                auto hex = [](U64 v) { char b[20]; snprintf(b, sizeof b, "%016llx", (unsigned long long)v); return std::string(b); };
                const U64 k1 = PolyglotBook::getHashKey(pos);
                static const char* names[4] = {"A1", "H1", "A8", "H8"};    // Position::{A1,H1,A8,H8}_CASTLE bit order
                for (int bit = 0; bit < 4; bit++)
                    if (pos.getCastleMask() & (1 << bit)) {
                        Position q(pos);
                        q.setCastleMask(pos.getCastleMask() & ~(1 << bit));
                        os << "{\"e\":\"KeyDiff\",\"what\":\"" << names[bit] << "\",\"castle\":" << pos.getCastleMask() << ",\"diff\":\"" << hex(k1 ^ PolyglotBook::getHashKey(q)) << "\"}\n";
                    }
                Position q(pos);
                q.setWhiteMove(!pos.isWhiteMove());
                q.setEpSquare(Square(-1));
                Position q0(pos);
                q0.setEpSquare(Square(-1));
                // en passant: a pawn of the side to move stands beside a pawn that has just made a double step, so the capture is
                // possible and the key carries the constant of the en-passant FILE (positions built for every file, both colours)
                if (poss.size() % 3 == 1) {
                    static int epNo = 0;
                    int f = epNo % 8; bool wtm = (epNo / 8) % 2 == 0; epNo++;
                    int fa = f == 0 ? 1 : (f == 7 ? 6 : (epNo % 2 ? f - 1 : f + 1));
                    std::string row = "8";
                    { std::string r(8, '1'); r[f] = wtm ? 'p' : 'P'; r[fa] = wtm ? 'P' : 'p'; row = r; }
                    std::string fenE = wtm ? ("4k3/8/8/" + row + "/8/8/8/4K3 w - " + std::string(1, (char)('a' + f)) + "6 0 1")
                                           : ("4k3/8/8/8/" + row + "/8/8/4K3 b - " + std::string(1, (char)('a' + f)) + "3 0 1");
                    try {
                        Position pe = TextIO::readFEN(fenE);
                        if (pe.getEpSquare().isValid()) {
                            Position pn(pe); pn.setEpSquare(Square(-1));
                            os << "{\"e\":\"KeyDiff\",\"what\":\"ep" << (char)('A' + f) << "\",\"castle\":0,\"diff\":\"" << hex(PolyglotBook::getHashKey(pe) ^ PolyglotBook::getHashKey(pn)) << "\"}\n";
                        }
                    } catch (const ChessParseError&) {}
                }
                os << "{\"e\":\"KeyDiff\",\"what\":\"turn\",\"castle\":" << pos.getCastleMask() << ",\"diff\":\"" << hex(PolyglotBook::getHashKey(q0) ^ PolyglotBook::getHashKey(q)) << "\"}\n";
            }
        }
        std::sort(ents.begin(), ents.end(), [](const Ent& a, const Ent& c) { return a.key < c.key; });
        std::string bytes;
        for (const Ent& e : ents) { PolyglotBook::PGEntry pe; PolyglotBook::serialize(e.key, e.mv, e.w, pe); bytes.append((const char*)pe.data, 16); }
        for (int variant = 0; variant < 6; variant++) {
            std::string data = bytes, kind;
            switch (variant) {
            case 0: kind = "valid"; break;
            case 1: kind = "truncated"; data.resize(bytes.empty() ? 0 : rnd.nextInt((int)bytes.size())); break;
            case 2: kind = "corrupt"; for (int i = 0; i < 1 + rnd.nextInt(20) && !data.empty(); i++) data[rnd.nextInt((int)data.size())] = (char)rnd.nextInt(256); break;
            case 3: { kind = "unsorted"; std::vector<std::string> recs; for (size_t i = 0; i + 16 <= bytes.size(); i += 16) recs.push_back(bytes.substr(i, 16));
                      for (size_t i = recs.size(); i > 1; i--) std::swap(recs[i-1], recs[rnd.nextInt((int)i)]); data.clear(); for (auto& r : recs) data += r; break; }
            case 4: kind = "missing"; break;
            case 5: kind = "garbage"; data.clear(); for (int i = 0; i < rnd.nextInt(4096); i++) data += (char)rnd.nextInt(256); break;
            }
            std::string path = tmp + "/pg_" + std::to_string(seed) + "_" + std::to_string(b) + "_" + std::to_string(variant) + ".bin";
            if (kind != "missing") { std::ofstream f(path, std::ios::binary); f.write(data.data(), data.size()); }
            Parameters::instance().set("BookFile", path);
            int fileId = (int)files++;
            os << "{\"e\":\"BookFile\",\"id\":" << fileId << ",\"kind\":\"" << kind << "\",\"bytes\":" << data.size() << ",\"entries\":" << ents.size() << "}\n";
            for (size_t i = 0; i < poss.size(); i++) {
                if (variant != 0 && rnd.nextInt(3)) continue;
                probeJ(kind.c_str(), fileId, poss[i], stored[i], variant == 0 ? K : 12);
            }
            // positions that are not in the book at all
            for (int i = 0; i < 3; i++) {
                Position pos = TextIO::readFEN(fens[rnd.nextInt((int)fens.size())]);
                for (int p = 0; p < 15 + rnd.nextInt(10); p++) { MoveList ml; legalMoves(pos, ml); if (ml.size == 0) break; UndoInfo ui; pos.makeMove(ml[rnd.nextInt(ml.size)], ui); }
                std::vector<std::pair<Move,int>> none;
                probeJ((kind + "-absent").c_str(), fileId, pos, none, 4);
            }
            if (kind != "missing") std::remove(path.c_str());
        }
    }
    Parameters::instance().set("BookFile", "");
    printf("{\"probe_events\":%ld,\"book_files\":%ld}\n", probes, files);
    return 0;
}
