// C20 trace recorder: random and structured rank-constraint systems solved by the real CspSolver under all four
// value-preference orders.  usage: h_csp <seed> <count> <out>
//   h_csp <seed> 0 <out> enum <L> <H> <stride> <offset>: instead of random systems, every stride-th system (starting at offset) of the
//   complete family of MC_Csp.tla: two variables with lo, hi in L..H (lo > hi allowed: empty domain), parity none/even/odd, and no
//   constraint, one constraint v_i <= v_j + c (i, j in {1,2}, c in -2..2) or that plus v_2 <= v_1 + d (d in -2..2)
#include "cspsolver.hpp"
#include "random.hpp"
#include <fstream>
#include <sstream>
#include <iostream>
#include <vector>
#include <string>

struct Var { int lo, hi; bool even, odd; std::vector<int> mins, maxs; };
struct Con { int v1, op, v2, c; };

int main(int argc, char** argv) {
    if (argc < 4) return 2;
    U64 seed = std::stoull(argv[1]);
    long count = atol(argv[2]);
    std::ofstream os(argv[3]);
    os << "{\"e\":\"Meta\",\"check\":\"C20\",\"seed\":" << seed << "}\n";
    Random rnd(seed, 0xC20);
    auto ri = [&](int lo, int hi) { return lo + rnd.nextInt(hi - lo + 1); };
    long sat = 0, unsat = 0;
    const bool enumMode = argc > 8 && std::string(argv[4]) == "enum";
    const int eL = enumMode ? atoi(argv[5]) : 0, eH = enumMode ? atoi(argv[6]) : 0;
    const long eStride = enumMode ? atol(argv[7]) : 1, eOff = enumMode ? atol(argv[8]) : 0;
    const long eR = eH - eL + 1, eV = eR * eR * 3, eTotal = eV * eV * 121;
    if (enumMode) count = (eTotal - eOff + eStride - 1) / eStride;
    for (long n = 0; n < count; n++) {
        int style = enumMode ? 0 : rnd.nextInt(10);
        int nv = style < 2 ? ri(1, 3) : style < 7 ? ri(2, 6) : ri(5, 10);
        std::vector<Var> vars(nv);
        for (auto& v : vars) {
            int edge = rnd.nextInt(6);
            if (edge == 0) { v.lo = -16; v.hi = ri(-16, -10); }            // lower window edge
            else if (edge == 1) { v.lo = ri(40, 47); v.hi = 47; }           // upper window edge
            else if (edge == 2) { v.lo = 1; v.hi = 6; }                     // ranks, as the proof kernel uses
            else if (edge == 3) { v.lo = ri(-16, 47); v.hi = v.lo + ri(0, 2); if (v.hi > 47) v.hi = 47; }
            else if (edge == 4) { v.lo = ri(-16, 20); v.hi = std::min(47, v.lo + ri(5, 40)); }          // wide
            else { v.lo = ri(-16, 47); v.hi = ri(-16, 47); if (v.lo > v.hi && rnd.nextInt(8)) std::swap(v.lo, v.hi); }
            v.even = rnd.nextInt(5) == 0;
            v.odd = !v.even && rnd.nextInt(5) == 0;
            if (rnd.nextInt(40) == 0) v.even = v.odd = true;                // contradictory parity: empty domain
            int nt = rnd.nextInt(3);
            for (int i = 0; i < nt; i++) { if (rnd.nextInt(2)) v.mins.push_back(ri(-16, v.lo + 3 > 47 ? 47 : v.lo + 3)); else v.maxs.push_back(ri(v.hi - 3 < -16 ? -16 : v.hi - 3, 47)); }
        }
        int nc = style < 2 ? ri(0, 4) : (rnd.nextInt(3) ? ri(0, 8) : ri(0, 25));
        int slack = rnd.nextInt(3);      // 0: tight constants, 1: mixed, 2: loose (mostly satisfiable)
        std::vector<Con> cons;
        for (int i = 0; i < nc; i++) {
            Con c; c.v1 = rnd.nextInt(nv); c.v2 = rnd.nextInt(nv);
            int kind = rnd.nextInt(10);
            c.c = kind < 6 ? ri(-3, 3) : kind < 8 ? ri(-12, 12) : ri(-63, 63);
            c.op = rnd.nextInt(3);      // 0 LE, 1 GE, 2 EQ
            if (slack == 2 && c.op != 2) c.c = (c.op == 0 ? 1 : -1) * ri(0, 30);
            if (slack >= 1 && c.op == 2 && rnd.nextInt(2)) c.op = rnd.nextInt(2);
            cons.push_back(c);
        }
        if (style == 9 && nv >= 3) {    // chains and cycles as produced by the extended proof kernel: v0 < v1 < ... and wrap-around
            cons.clear();
            for (int i = 0; i + 1 < nv; i++) cons.push_back({i, 0, i + 1, -ri(0, 2)});
            if (rnd.nextInt(2)) cons.push_back({nv - 1, 0, 0, ri(-2, 8)});
            if (rnd.nextInt(2)) cons.push_back({rnd.nextInt(nv), 2, rnd.nextInt(nv), ri(-2, 2)});
        }
        if (style == 7 || style == 8) {
            // planted solution: ranges straddling the value-preference windows (around 1..6), constraints consistent with a hidden assignment,
            // mostly equalities to earlier variables so that only few values of each variable are feasible
            nv = ri(2, 7);
            vars.assign(nv, Var());
            std::vector<int> x(nv);
            for (int i = 0; i < nv; i++) {
                Var& v = vars[i];
                v.lo = ri(-6, 8); v.hi = std::min(47, v.lo + ri(1, 6));
                v.even = v.odd = false;
                x[i] = ri(v.lo, v.hi);
                if (rnd.nextInt(3) == 0) x[i] = rnd.nextInt(2) ? v.lo : v.hi;       // solutions at the range ends
            }
            cons.clear();
            for (int i = 1; i < nv; i++) {
                int j = rnd.nextInt(i);
                int kind = rnd.nextInt(4);
                if (kind < 2) cons.push_back({i, 2, j, x[i] - x[j]});                 // equality
                else if (kind == 2) cons.push_back({i, 0, j, x[i] - x[j] + ri(0, 1)});
                else cons.push_back({i, 1, j, x[i] - x[j] - ri(0, 1)});
            }
        }
        if (enumMode) {
            long idx = eOff + n * eStride;
            long ci = idx % 121; idx /= 121;
            nv = 2;
            vars.assign(2, Var());
            for (int k = 0; k < 2; k++) {
                long vi = idx % eV; idx /= eV;
                vars[k].lo = eL + (int)(vi % eR); vi /= eR;
                vars[k].hi = eL + (int)(vi % eR); vi /= eR;
                vars[k].even = vi == 1; vars[k].odd = vi == 2;
            }
            cons.clear();
            if (ci >= 1) {
                long a = (ci - 1) % 20;               // first constraint: v_i <= v_j + c
                cons.push_back({(int)(a / 10), 0, (int)((a / 5) % 2), (int)(a % 5) - 2});
                if (ci >= 21) cons.push_back({1, 0, 0, (int)((ci - 21) / 20) - 2});
            }
        }
        std::string sys = "\"vars\":[";
        for (int i = 0; i < nv; i++) {
            const Var& v = vars[i];
            int lo = v.lo, hi = v.hi;
            for (int m : v.mins) lo = std::max(lo, m);
            for (int m : v.maxs) hi = std::min(hi, m);
            int par = (v.even && v.odd) ? 3 : v.even ? 1 : v.odd ? 2 : 0;
            if (i) sys += ',';
            sys += "{\"lo\":" + std::to_string(lo) + ",\"hi\":" + std::to_string(hi) + ",\"par\":" + std::to_string(par) + "}";
        }
        sys += "],\"cons\":[";
        bool first = true;
        for (const Con& c : cons) {
            auto add = [&](int a, int b, int k) { if (!first) sys += ','; first = false; sys += "[" + std::to_string(a + 1) + "," + std::to_string(b + 1) + "," + std::to_string(k) + "]"; };
            if (c.op == 0 || c.op == 2) add(c.v1, c.v2, c.c);          // v1 <= v2 + c
            if (c.op == 1 || c.op == 2) add(c.v2, c.v1, -c.c);         // v1 >= v2 + c  <=>  v2 <= v1 - c
        }
        sys += "]";
        std::string res = "[";
        std::vector<int> mixed(nv);
        for (int i = 0; i < nv; i++) mixed[i] = rnd.nextInt(4);
        // run 6 and 7: the same system built in two instalments on ONE solver object - variables, domain restrictions and a first part
        // of the constraints, solve(), then the remaining constraints (no new variable), solve() again; the second answer is judged
        const size_t split1 = cons.empty() ? 0 : rnd.nextInt((int)cons.size() + 1);
        for (int pref = 0; pref < 7; pref++) {
            std::ostringstream log;
            CspSolver solver(log, true);
            const bool instalments = pref >= 5;
            for (const Var& v : vars) {
                CspSolver::PrefVal pv = (CspSolver::PrefVal)(pref < 4 ? pref : pref == 6 ? (int)((&v - &vars[0]) % 4) : mixed[&v - &vars[0]]);
                if (v.lo > v.hi) { int id = solver.addVariable(pv, v.hi, v.lo); solver.addMinVal(id, v.lo); solver.addMaxVal(id, v.hi); }
                else solver.addVariable(pv, v.lo, v.hi);
            }
            for (int i = 0; i < nv; i++) {
                if (vars[i].even) solver.makeEven(i);
                if (vars[i].odd) solver.makeOdd(i);
                for (int m : vars[i].mins) solver.addMinVal(i, m);
                for (int m : vars[i].maxs) solver.addMaxVal(i, m);
            }
            const size_t split = instalments ? (pref == 5 ? split1 : 0) : cons.size();
            auto addCon = [&](const Con& c) {
                if (c.op == 0) solver.addIneq(c.v1, CspSolver::LE, c.v2, c.c);
                else if (c.op == 1) solver.addIneq(c.v1, CspSolver::GE, c.v2, c.c);
                else solver.addEq(c.v1, c.v2, c.c);
            };
            for (size_t ci = 0; ci < split; ci++) addCon(cons[ci]);
            std::vector<int> values;
            if (instalments) {
                solver.solve(values);
                for (size_t ci = split; ci < cons.size(); ci++) addCon(cons[ci]);
                values.clear();
            }
            bool ok = solver.solve(values);
            if (pref) res += ',';
            res += std::string("{\"sat\":") + (ok ? "true" : "false") + ",\"vals\":[";
            if (ok) for (int i = 0; i < nv; i++) { if (i) res += ','; res += std::to_string(values[i]); }
            res += "]}";
            if (pref == 0) { if (ok) sat++; else unsat++; }
        }
        res += "]";
        os << "{\"e\":\"Sys\"," << sys << ",\"res\":" << res << "}\n";
    }
    printf("{\"systems\":%ld,\"sat\":%ld,\"unsat\":%ld}\n", count, sat, unsat);
    return 0;
}
