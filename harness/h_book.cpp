// C19 trace recorder: random operation sequences on the real BookBuild::Book (friend access through the class name
// BookBuildTest), with the whole node graph dumped for validation against spec/BookGraph.tla.
// usage: h_book <seed> <nBooks> <opsPerBook> <maxNodes> <dumpEvery> <out> <tmpdir>
#include "bookbuild.hpp"
#include "hcommon.hpp"
#include <fstream>
#include <iostream>
#include <map>
#include <sstream>

using namespace BookBuild;

class BookBuildTest {
public:
    static int run(int argc, char** argv);
};

static std::map<U64,int> ids;
static int idOf(U64 h) { auto it = ids.find(h); if (it != ids.end()) return it->second; int id = (int)ids.size() + 1; ids[h] = id; return id; }

int BookBuildTest::run(int argc, char** argv) {
    if (argc < 8) { fprintf(stderr, "usage: h_book seed nBooks ops maxNodes dumpEvery out tmpdir\n"); return 2; }
    U64 seed = std::stoull(argv[1]);
    int nBooks = atoi(argv[2]), nOps = atoi(argv[3]), maxNodes = atoi(argv[4]), dumpEvery = atoi(argv[5]);
    std::ofstream os(argv[6]);
    std::string tmp = argv[7];
    // book cost parameters (bookDepthCost, ownPathErrorCost, otherPathErrorCost); tiny values make equal costs frequent
    const int cD = argc > 10 ? atoi(argv[8]) : 100, cOwn = argc > 10 ? atoi(argv[9]) : 200, cOth = argc > 10 ? atoi(argv[10]) : 50;
    vh::init();
    os << "{\"e\":\"Meta\",\"check\":\"C19\",\"seed\":" << seed << ",\"cfg\":[" << cD << "," << cOwn << "," << cOth << "],\"IGNORE\":" << IGNORE_SCORE << ",\"INVALID\":" << INVALID_SCORE << "}\n";
    Random rnd(seed, 0xC19);
    long ops = 0, dumps = 0, maxSeen = 0, transpositions = 0, reloads = 0, imports = 0;
    std::streambuf* coutBuf = std::cout.rdbuf();
    std::ostringstream sink;
    for (int b = 0; b < nBooks; b++) {
        ids.clear();
        std::unique_ptr<BookBuild::Book> book(new BookBuild::Book("", cD, cOwn, cOth));
        auto dump = [&](const char* op) {
            os << "{\"e\":\"Graph\",\"op\":\"" << op << "\",\"nodes\":[";
            // stable order by id
            std::map<int, BookNode*> byId;
            for (auto& e : book->bookNodes) byId[idOf(e.first)] = e.second.get();
            // ids must be dense 1..n for the spec: renumber on the fly
            std::map<int,int> dense; int k = 0;
            for (auto& e : byId) dense[e.first] = ++k;
            bool first = true;
            for (auto& e : byId) {
                BookNode* n = e.second;
                if (!first) os << ',';
                first = false;
                os << "{\"depth\":" << n->getDepth() << ",\"search\":" << n->getSearchScore() << ",\"best\":" << n->getBestNonBookMove().getCompressedMove()
                   << ",\"nega\":" << n->getNegaMaxScore() << ",\"expW\":" << n->getExpansionCostWhite() << ",\"expB\":" << n->getExpansionCostBlack()
                   << ",\"errW\":" << n->getPathErrorWhite() << ",\"errB\":" << n->getPathErrorBlack()
                   << ",\"pend\":" << (book->bookData.isPending(n->getHashKey()) ? "true" : "false")
                   << ",\"root\":" << (n->getHashKey() == book->startPosHash ? "true" : "false") << ",\"kids\":[";
                bool f2 = true;
                for (auto& c : n->getChildren()) { if (!f2) os << ','; f2 = false; os << "[" << c.first << "," << dense[idOf(c.second->getHashKey())] << "]"; }
                os << "],\"pars\":[";
                f2 = true;
                for (auto& p : n->getParents()) { if (!f2) os << ','; f2 = false; os << "[" << p.compressedMove << "," << dense[idOf(p.parent->getHashKey())] << "]"; }
                os << "]}";
                if (n->getParents().size() > 1) transpositions++;
            }
            os << "]}\n";
            dumps++;
            maxSeen = std::max<long>(maxSeen, (long)byId.size());
        };
        dump("new");
        // Half of the books use a tiny score alphabet: equal scores and equal costs (a value changing to exactly the old value of a
        // neighbouring field, two children with the same cost, zero move errors) are what change-detection shortcuts get wrong.
        const bool smallScores = rnd.nextInt(2) == 0;
        // a search result for node (position pos, legal moves ml): dropout move legal / covered by a child / empty; score alphabet per book
        auto storeSearch = [&](BookNode* node, Position& pos, MoveList& ml) {
            Move best;
            int kind = rnd.nextInt(10);
            if (ml.size > 0 && kind < 8) best = ml[rnd.nextInt(ml.size)];
            if (kind == 8 && !node->getChildren().empty()) {   // a move that already has a child node (obsoleted dropout move)
                auto it = node->getChildren().begin();
                std::advance(it, rnd.nextInt((int)node->getChildren().size()));
                for (int i = 0; i < ml.size; i++) if (ml[i].getCompressedMove() == it->first) best = ml[i];
            }
            int sk = rnd.nextInt(smallScores ? 40 : 20), score;
            if (sk >= 20) sk = rnd.nextInt(13);               // tiny-alphabet books: special scores are half as frequent
            if (sk < 13) score = smallScores ? (rnd.nextInt(9) - 4) * (rnd.nextInt(3) == 0 ? 4 : 1) : rnd.nextInt(601) - 300;
            else if (sk < 15) score = SearchConst::MATE0 - 2 * (1 + rnd.nextInt(6));
            else if (sk < 17) score = -(SearchConst::MATE0 - 1 - 2 * rnd.nextInt(6));
            else if (sk < 18) score = 0;
            else if (sk < 19) { score = IGNORE_SCORE; best = Move(); }
            else score = INVALID_SCORE;
            node->setSearchResult(book->bookData, best, score, 1000 + rnd.nextInt(5000));
        };
        for (int op = 0; op < nOps; op++) {
            std::vector<U64> keys;
            for (auto& e : book->bookNodes) keys.push_back(e.first);
            std::sort(keys.begin(), keys.end(), [](U64 a, U64 c) { return idOf(a) < idOf(c); });
            U64 h = keys[rnd.nextInt((int)keys.size())];
            // prefer shallow nodes a little so that transpositions (Nf3/Nc3 orders) are frequent
            for (int t = 0; t < 2; t++) { U64 h2 = keys[rnd.nextInt((int)keys.size())]; if (book->getBookNode(h2)->getDepth() < book->getBookNode(h)->getDepth()) h = h2; }
            BookNode* node = book->getBookNode(h);
            Position pos;
            std::vector<Move> path;
            if (!book->getPosition(h, pos, path)) continue;
            MoveList ml;
            vh::legalMoves(pos, ml);
            int act = rnd.nextInt(100);
            const char* name = "none";
            if (act < 45 && (int)keys.size() < maxNodes && ml.size > 0) {
                // extend: a move whose target is not yet in the book (knight/pawn moves preferred: transposition-prone)
                Move m; bool found = false;
                for (int t = 0; t < 12 && !found; t++) {
                    Move c = ml[rnd.nextInt(ml.size)];
                    int p = pos.getPiece(c.from());
                    bool pref = p == Piece::WKNIGHT || p == Piece::BKNIGHT || p == Piece::WPAWN || p == Piece::BPAWN;
                    if (!pref && t < 8) continue;
                    UndoInfo ui; pos.makeMove(c, ui);
                    bool inBook = book->getBookNode(pos.bookHash()) != nullptr;
                    pos.unMakeMove(c, ui);
                    if (!inBook) { m = c; found = true; }
                }
                if (!found) continue;
                std::vector<U64> toSearch;
                book->addPosToBook(pos, m, toSearch);
                name = "add";
                // as the book builder does: the positions handed back for searching get their results soon (90%: at once)
                for (U64 k : toSearch) {
                    if (rnd.nextInt(10) == 0) continue;
                    BookNode* n2 = book->getBookNode(k);
                    Position p2; std::vector<Move> path2;
                    if (!n2 || !book->getPosition(k, p2, path2)) continue;
                    MoveList ml2; vh::legalMoves(p2, ml2);
                    storeSearch(n2, p2, ml2);
                    name = "add+search";
                }
            } else if (act < 80) {
                storeSearch(node, pos, ml);
                name = "search";
            } else if (act < 90) {
                std::vector<U64> pendNow;
                for (U64 k : keys) if (book->bookData.isPending(k)) pendNow.push_back(k);
                if (!pendNow.empty() && rnd.nextInt(2) == 0) {      // searches finish: pending marks do not stay for long
                    h = pendNow[rnd.nextInt((int)pendNow.size())];
                    node = book->getBookNode(h);
                }
                if (book->bookData.isPending(h)) {
                    book->removePending(h); name = "unpend";
                    if (rnd.nextInt(2) == 0) {     // as Book::extendBook does: the finished search stores its result (often the same one)
                        node->setSearchResult(book->bookData, node->getBestNonBookMove(), node->getSearchScore(), node->getSearchTime());
                        name = "unpend+store";
                    }
                }
                else { book->addPending(h); name = "pend"; }
            } else if (act < 95) {
                // save / load cycle: the reloaded book must reproduce the same graph and scores (pending marks are not stored)
                std::vector<U64> pend;
                for (U64 k : keys) if (book->bookData.isPending(k)) pend.push_back(k);
                for (U64 k : pend) book->removePending(k);
                dump("before-save");
                std::string f = tmp + "/book_" + std::to_string(seed) + ".bin";
                book->writeToFile(f);
                book.reset(new BookBuild::Book("", cD, cOwn, cOth));
                std::cout.rdbuf(sink.rdbuf());
                book->readFromFile(f);
                std::cout.rdbuf(coutBuf);
                std::remove(f.c_str());
                reloads++;
                name = "reload";
            } else {
                // import a random game from the start position through the PGN path
                std::string f = tmp + "/book_" + std::to_string(seed) + ".bin", pg = tmp + "/game_" + std::to_string(seed) + ".pgn";
                std::vector<U64> pend;
                for (U64 k : keys) if (book->bookData.isPending(k)) pend.push_back(k);
                for (U64 k : pend) book->removePending(k);
                book->writeToFile(f);
                {
                    std::ofstream pgn(pg);
                    pgn << "[Event \"x\"]\n[Result \"*\"]\n\n";
                    Position p = TextIO::readFEN(TextIO::startPosFEN);
                    int len = 2 + rnd.nextInt(8);
                    // transpositions reached by paths of different length (two single pawn steps against one double step; the half-move
                    // clock is part of the book key, so both orders end on a pawn move): a node's depth shrinks when the short path arrives
                    static const char* unequal[][2] = {
                        {"e2e3 e7e6 e3e4 e6e5 g1f3 b8c6 f1b5 a7a6", "e2e4 e7e5"}, {"d2d3 d7d6 d3d4 d6d5 c2c4 e7e6 b1c3 g8f6", "d2d4 d7d5"},
                        {"c2c3 c7c6 c3c4 c6c5 b1c3 b8c6 g2g3 g7g6", "c2c4 c7c5"}, {"e2e3 e7e6 e3e4 e6e5 g1f3 b8c6", "e2e4 e7e5 g1f3"},
                        {"e2e3 d7d6 e3e4 d6d5 e4d5 d8d5 b1c3 d5a5", "e2e4 d7d5"},
                        // two parents with the same placement but different half-move clocks (different book keys), joined by the same pawn move
                        {"d2d4 g8f6 g1f3 d7d5 c2c4", "g1f3 g8f6 d2d4 d7d5 c2c4"}, {"e2e4 e7e5 g1f3 b8c6 d2d4 e5d4", "g1f3 b8c6 e2e4 e7e5 d2d4 e5d4"},
                        {"c2c4 g8f6 g1f3 e7e6 b1c3", "g1f3 g8f6 c2c4 e7e6 b1c3"}};
                    if (rnd.nextInt(10) < 4) {
                        int k = rnd.nextInt(8);
                        std::istringstream ms(unequal[k][k >= 5 ? rnd.nextInt(2) : (rnd.nextInt(3) == 0 ? 1 : 0)]);
                        std::string um;
                        while (ms >> um) {
                            Move m = TextIO::uciStringToMove(um);
                            { MoveList l3; vh::legalMoves(p, l3); bool okm = false; for (int q = 0; q < l3.size; q++) if (l3[q] == m) okm = true; if (!okm) { fprintf(stderr, "h_book: illegal template move %s\n", um.c_str()); return 2; } }
                            if (p.isWhiteMove()) pgn << p.getFullMoveCounter() << ". ";
                            pgn << TextIO::moveToString(p, m, false) << " ";
                            UndoInfo ui; p.makeMove(m, ui);
                        }
                        len = rnd.nextInt(3);
                    }
                    for (int i = 0; i < len; i++) {
                        MoveList l2; vh::legalMoves(p, l2);
                        if (l2.size == 0) break;
                        Move m = l2[rnd.nextInt(l2.size)];
                        if (p.isWhiteMove()) pgn << p.getFullMoveCounter() << ". ";
                        pgn << TextIO::moveToString(p, m, false) << " ";
                        UndoInfo ui; p.makeMove(m, ui);
                    }
                    pgn << "*\n";
                }
                book.reset(new BookBuild::Book("", cD, cOwn, cOth));
                std::cout.rdbuf(sink.rdbuf());
                book->importPGN(f, pg, 6 + rnd.nextInt(5));
                std::cout.rdbuf(coutBuf);
                std::remove(f.c_str()); std::remove(pg.c_str());
                imports++;
                name = "import";
            }
            ops++;
            if (op % dumpEvery == dumpEvery - 1 || std::string(name) == "reload") dump(name);
        }
        dump("final");
    }
    printf("{\"books\":%d,\"ops\":%ld,\"dumps\":%ld,\"max_nodes\":%ld,\"multi_parent_node_dumps\":%ld,\"reloads\":%ld,\"imports\":%ld}\n",
           nBooks, ops, dumps, maxSeen, transpositions, reloads, imports);
    return 0;
}

int main(int argc, char** argv) { return BookBuildTest::run(argc, argv); }
