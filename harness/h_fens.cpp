// Root-position corpus for the engine-level checks (C03, C04, C11, C13, C14).
// usage: h_fens <seed> <count>
// Prints ND-JSON lines {"cat":..., "fen":..., "hist":[uci moves from "start"], "start":fen, "nlegal":n}
// Categories: game (random legal game position, with its move history), mate, stalemate,
// single (one legal move), fifty (half-move clock 97..99), sparse (<= 6 men), synth.
#include "hcommon.hpp"
#include "hgen.hpp"
#include <iostream>
using namespace vh;

static void emit(const char* cat, const Position& pos, const std::string& start, const std::vector<Move>& hist, int nLegal) {
    std::string h = "[";
    for (size_t i = 0; i < hist.size(); i++) { if (i) h += ','; h += "\"" + TextIO::moveToUCIString(hist[i]) + "\""; }
    h += "]";
    printf("{\"cat\":\"%s\",\"fen\":\"%s\",\"start\":\"%s\",\"hist\":%s,\"nlegal\":%d}\n", cat, TextIO::toFEN(pos).c_str(),
           start.c_str(), h.c_str(), nLegal);
}

int main(int argc, char** argv) {
    U64 seed = argc > 1 ? std::stoull(argv[1]) : 1;
    int count = argc > 2 ? atoi(argv[2]) : 100;
    vh::init();
    Random rnd(seed, 0xFE5);
    Gen gen(rnd);
    const auto& fens = startFens();
    int emitted = 0;
    int quota[8] = {0};
    auto want = [&](int cat, int share) { return quota[cat] * 100 < share * (emitted + 1) + 100; };
    bool repMode = argc > 3 && std::string(argv[3]) == "rep";
    static const char* pseudoEp[][2] = {
        {"3k4/8/8/8/3p4/8/4P3/3R2K1 w - - 0 1", "e2e4"}, {"4k3/8/8/8/2p5/8/3P4/2R1K3 w - - 0 1", "d2d4"},
        {"2r1k3/3p4/8/2P5/8/8/8/2K5 b - - 0 1", "d7d5"}, {"7k/8/8/8/1p6/8/B1P5/K7 w - - 0 1", "c2c4"},
        {"8/2p5/3p4/KP5r/1R3p1k/8/4P1P1/8 w - - 0 1", "e2e4"}, {"8/2p5/3p4/KP5r/1R3p1k/8/4P1P1/8 w - - 0 1", "g2g4"} };
    while (repMode && emitted < count) {
        // history = prefix + shuffle cycles so that some root move completes a 2nd/3rd occurrence or the 50-move count
        int style = rnd.nextInt(10);
        std::string start;
        Position pos;
        std::vector<Move> hist;
        if (style < 2) {
            int k = rnd.nextInt(6);
            start = pseudoEp[k][0];
            pos = TextIO::readFEN(start);
            Move m = TextIO::uciStringToMove(pseudoEp[k][1]);
            UndoInfo ui; pos.makeMove(m, ui); hist.push_back(m);
        } else if (style < 5) {
            static const char* f50[] = {"8/8/8/3k4/8/3K4/4R3/8 w - - %d 60", "r3k2r/8/8/8/8/8/8/R3K2R w KQkq - %d 40",
                                        "6k1/5ppp/8/8/8/8/5PPP/4R1K1 b - - %d 30", "8/5k2/8/8/8/2B5/1K6/7n w - - %d 77"};
            char buf[128]; snprintf(buf, sizeof(buf), f50[rnd.nextInt(4)], 90 + rnd.nextInt(21));
            start = buf; pos = TextIO::readFEN(start);
        } else {
            start = rnd.nextInt(2) ? fens[0] : fens[rnd.nextInt((int)fens.size())];
            pos = TextIO::readFEN(start);
            int pre = (rnd.nextInt(100) < 35) ? 90 + rnd.nextInt(90) : rnd.nextInt(40);   // also histories longer than 100 plies
            for (int i = 0; i < pre; i++) {
                MoveList ml; legalMoves(pos, ml);
                if (ml.size == 0) break;
                Move m = ml[rnd.nextInt(ml.size)]; UndoInfo ui; pos.makeMove(m, ui); hist.push_back(m);
            }
        }
        // shuffle: quiet reversible moves, preferring to undo the move made two plies ago
        int len = 1 + rnd.nextInt(11);
        bool dead = false;
        for (int i = 0; i < len; i++) {
            MoveList ml; legalMoves(pos, ml);
            if (ml.size == 0) { dead = true; break; }
            Move pick = ml[rnd.nextInt(ml.size)];
            bool found = false;
            if (hist.size() >= 2 && rnd.nextInt(100) < 85) {
                Move prev = hist[hist.size() - 2];
                for (int k = 0; k < ml.size; k++)
                    if (ml[k].from() == prev.to() && ml[k].to() == prev.from() && pos.getPiece(ml[k].to()) == Piece::EMPTY) { pick = ml[k]; found = true; break; }
            }
            if (!found)
                for (int t = 0; t < 10; t++) {
                    const Move& m = ml[rnd.nextInt(ml.size)];
                    int p = pos.getPiece(m.from());
                    if (p != Piece::WPAWN && p != Piece::BPAWN && pos.getPiece(m.to()) == Piece::EMPTY) { pick = m; break; }
                }
            UndoInfo ui; pos.makeMove(pick, ui); hist.push_back(pick);
        }
        MoveList ml; legalMoves(pos, ml);
        if (dead || ml.size == 0) continue;
        emit("rep", pos, start, hist, ml.size);
        emitted++;
    }
    bool thinMode = argc > 3 && std::string(argv[3]) == "thin";
    // a check after which the opponent has at most two legal replies, one of them a special evasion (double pawn push interposing,
    // en-passant capture, promotion): roots where "is it mate?" hinges on the evasion generator used inside the search
    auto forcingCheck = [](Position& pos) -> bool {
        MoveList ml; legalMoves(pos, ml);
        for (int i = 0; i < ml.size; i++) {
            UndoInfo ui; pos.makeMove(ml[i], ui);
            bool hit = false;
            if (MoveGen::inCheck(pos)) {
                MoveList rl; legalMoves(pos, rl);
                if (rl.size >= 1 && rl.size <= 2)
                    for (int k = 0; k < rl.size; k++) {
                        int pc = pos.getPiece(rl[k].from());
                        bool pawn = pc == Piece::WPAWN || pc == Piece::BPAWN;
                        if (pawn && (std::abs(rl[k].to().asInt() - rl[k].from().asInt()) == 16 || rl[k].to() == pos.getEpSquare() || rl[k].promoteTo() != Piece::EMPTY)) hit = true;
                    }
            }
            pos.unMakeMove(ml[i], ui);
            if (hit) return true;
        }
        return false;
    };
    // roots from which a double pawn step gives check and the ONLY legal reply is to take that pawn en passant (every geometry of king,
    // checking pawn and capturing pawn, both colours): an engine that overlooks the reply announces a mate that is none
    {
        int onlyEp = 0;
        for (long tries = 0; thinMode && onlyEp < std::max(6, count / 40) && tries < 3000000; tries++) {
            int board[64] = {0};
            int xk = rnd.nextInt(8), xp = xk + (rnd.nextInt(2) ? 1 : -1);
            if (xp < 0 || xp > 7) continue;
            board[3 * 8 + xk] = Piece::WKING;
            board[4 * 8 + xp] = Piece::BPAWN;
            bool any = false;
            for (int dx = -1; dx <= 1; dx += 2) { int xc = xp + dx; if (xc < 0 || xc > 7 || rnd.nextInt(2) == 0) continue; board[4 * 8 + xc] = Piece::WPAWN; any = true; }
            if (!any) continue;
            auto put = [&](int pc) { for (int t = 0; t < 60; t++) { int sq = rnd.nextInt(64); if (board[sq] || (sq % 8 == xp && sq / 8 >= 5)) continue;
                                     if ((pc == Piece::WPAWN || pc == Piece::BPAWN) && (sq < 8 || sq >= 56)) continue; board[sq] = pc; return; } };
            put(Piece::BKING);
            static const int extra[] = {Piece::BQUEEN, Piece::BROOK, Piece::BROOK, Piece::BBISHOP, Piece::BKNIGHT, Piece::WPAWN, Piece::WPAWN, Piece::WKNIGHT, Piece::WBISHOP, Piece::BPAWN};
            for (int k = 2 + rnd.nextInt(5); k > 0; k--) put(extra[rnd.nextInt(10)]);
            std::string f;
            for (int y = 7; y >= 0; y--) {
                int e = 0;
                for (int x = 0; x < 8; x++) { int pc = board[y * 8 + x]; if (!pc) { e++; continue; } if (e) { f += std::to_string(e); e = 0; } f += " KQRBNPkqrbnp"[pc]; }
                if (e) f += std::to_string(e);
                if (y) f += '/';
            }
            std::string after = f + " w - " + (char)('a' + xp) + "6 0 1";
            bool flip = rnd.nextInt(2) == 0;
            auto flipBoard = [](const std::string& b) {
                std::string rows[8]; int ri = 0;
                for (char ch : b) { if (ch == '/') ri++; else rows[ri] += (char)(isalpha(ch) ? (isupper(ch) ? tolower(ch) : toupper(ch)) : ch); }
                std::string f2; for (int r = 7; r >= 0; r--) { f2 += rows[r]; if (r) f2 += '/'; } return f2; };
            if (flip) after = flipBoard(f) + " b - " + (char)('a' + xp) + "3 0 1";
            Position pa;
            try { pa = TextIO::readFEN(after); } catch (const ChessParseError&) { continue; }
            if (!pa.getEpSquare().isValid() || !MoveGen::inCheck(pa)) continue;
            MoveList ml; legalMoves(pa, ml);
            if (ml.size != 1 || ml[0].to() != pa.getEpSquare()) continue;
            int pcm = pa.getPiece(ml[0].from());
            if (pcm != Piece::WPAWN && pcm != Piece::BPAWN) continue;
            // the root: the checking pawn back on its own second rank, the other side to move
            Position root(pa);
            Square to(xp, flip ? 3 : 4), from(xp, flip ? 1 : 6);
            if (root.getPiece(from) != Piece::EMPTY) continue;
            root.setPiece(from, root.getPiece(to));
            root.setPiece(to, Piece::EMPTY);
            root.setEpSquare(Square(-1));
            root.setWhiteMove(!pa.isWhiteMove());
            std::string rf = TextIO::toFEN(root);
            Position chk;
            try { chk = TextIO::readFEN(rf); } catch (const ChessParseError&) { continue; }
            if (MoveGen::inCheck(chk)) continue;
            MoveList rl; legalMoves(chk, rl);
            bool pushLegal = false;
            for (int i = 0; i < rl.size; i++) if (rl[i].from() == from && rl[i].to() == to) pushLegal = true;
            if (!pushLegal) continue;
            emit("thin", chk, rf, {}, rl.size); emitted++; onlyEp++;
        }
    }
    int forced = 0;
    for (int tries = 0; thinMode && forced < count / 4 && tries < 400000; tries++) {
        Position pos;
        if (tries % 2 == 0) {
            RawPos r = gen.gen();
            try { pos = TextIO::readFEN(rawFen(r)); } catch (const ChessParseError&) { continue; }
        } else {
            pos = TextIO::readFEN(fens[rnd.nextInt((int)fens.size())]);
            int plies = 10 + rnd.nextInt(70);
            for (int k = 0; k < plies; k++) {
                MoveList ml; legalMoves(pos, ml);
                if (ml.size == 0) break;
                Move m = ml[rnd.nextInt(ml.size)];
                if (rnd.nextInt(100) < 60)
                    for (int t = 0; t < 6; t++) { const Move& c = ml[rnd.nextInt(ml.size)]; if (pos.getPiece(c.to()) != Piece::EMPTY) { m = c; break; } }
                UndoInfo ui; pos.makeMove(m, ui);
            }
        }
        MoveList ml; legalMoves(pos, ml);
        if (ml.size == 0 || MoveGen::inCheck(pos) || pos.getHalfMoveClock() >= 80) continue;
        if (forcingCheck(pos)) { emit("thin", pos, TextIO::toFEN(pos), {}, ml.size); emitted++; forced++; }
    }
    while (thinMode && emitted < count) {
        // capture-happy random games: sparse middlegames / endgames with 6..14 men, both sides keeping some material
        Position pos = TextIO::readFEN(rnd.nextInt(3) ? fens[0] : fens[rnd.nextInt((int)fens.size())]);
        std::vector<Move> hist;
        for (int ply = 0; ply < 200 && emitted < count; ply++) {
            MoveList ml;
            legalMoves(pos, ml);
            if (ml.size == 0 || pos.getHalfMoveClock() >= 80) break;
            int n = pos.nPieces();
            if (n >= 5 && n <= 14 && rnd.nextInt(6) == 0) { emit("thin", pos, TextIO::toFEN(pos), {}, ml.size); emitted++; }
            Move m = ml[rnd.nextInt(ml.size)];
            if (rnd.nextInt(100) < 70)
                for (int t = 0; t < 6; t++) { const Move& c = ml[rnd.nextInt(ml.size)]; if (pos.getPiece(c.to()) != Piece::EMPTY) { m = c; break; } }
            UndoInfo ui;
            pos.makeMove(m, ui);
        }
    }
    // pawnless roots of at most four men that the on-demand tablebase does not answer at once: a castling right is still there, or the
    // half-move clock is so high that the mate only fits after a capture later in the line (category "tbroot"; searched without limits)
    for (int k = 0; !thinMode && !repMode && k < std::max(2, count / 14); k++) {
        for (int attempt = 0; attempt < 200; attempt++) {
            int board[64] = {0};
            std::string rights = "-";
            int hmc = 0;
            auto put = [&](int pc) { for (int t = 0; t < 100; t++) { int sq = rnd.nextInt(64); if (!board[sq]) { board[sq] = pc; return; } } };
            if (rnd.nextInt(3) != 0) {
                bool white = rnd.nextInt(2) == 0, kingSide = rnd.nextInt(2) == 0;
                board[white ? 4 : 60] = white ? Piece::WKING : Piece::BKING;
                board[(white ? 0 : 56) + (kingSide ? 7 : 0)] = white ? Piece::WROOK : Piece::BROOK;
                rights = white ? (kingSide ? "K" : "Q") : (kingSide ? "k" : "q");
                put(white ? Piece::BKING : Piece::WKING);
                if (rnd.nextInt(2)) put(white ? (rnd.nextInt(2) ? Piece::BKNIGHT : Piece::BBISHOP) : (rnd.nextInt(2) ? Piece::WKNIGHT : Piece::WBISHOP));
            } else {
                put(Piece::WKING); put(Piece::BKING);
                bool white = rnd.nextInt(2) == 0;
                put(white ? Piece::WQUEEN : Piece::BQUEEN);
                put(white ? Piece::BROOK : Piece::WROOK);
                hmc = 84 + rnd.nextInt(14);
            }
            std::string f;
            for (int y = 7; y >= 0; y--) {
                int e = 0;
                for (int x = 0; x < 8; x++) { int pc = board[y * 8 + x]; if (!pc) { e++; continue; } if (e) { f += std::to_string(e); e = 0; } f += " KQRBNPkqrbnp"[pc]; }
                if (e) f += std::to_string(e);
                if (y) f += '/';
            }
            f += std::string(rnd.nextInt(2) ? " w " : " b ") + rights + " - " + std::to_string(hmc) + " 70";
            Position pos;
            try { pos = TextIO::readFEN(f); } catch (const ChessParseError&) { continue; }
            { Position o(pos); o.setWhiteMove(!pos.isWhiteMove()); if (MoveGen::inCheck(o)) continue; }
            if (rights != "-" && pos.getCastleMask() == 0) continue;
            MoveList ml; legalMoves(pos, ml);
            if (ml.size == 0) continue;
            emit("tbroot", pos, TextIO::toFEN(pos), {}, ml.size); emitted++;
            break;
        }
    }
    while (emitted < count) {
        int mode = rnd.nextInt(10);
        if (mode < 7) {
            std::string start = (rnd.nextInt(2) == 0) ? fens[0] : fens[rnd.nextInt((int)fens.size())];
            Position pos = TextIO::readFEN(start);
            std::vector<Move> hist;
            int maxPly = 6 + rnd.nextInt(140);
            for (int ply = 0; ply < maxPly && emitted < count; ply++) {
                MoveList ml;
                legalMoves(pos, ml);
                const char* cat = nullptr;
                int ci = 0;
                if (ml.size == 0) { cat = MoveGen::inCheck(pos) ? "mate" : "stalemate"; ci = 1; }
                else if (ml.size == 1) { cat = "single"; ci = 2; }
                else if (pos.getHalfMoveClock() >= 97) { cat = "fifty"; ci = 3; }
                else if (pos.nPieces() <= 6) { cat = "sparse"; ci = 4; }
                if (!cat || ci == 4) {
                    for (int k = 0; k < ml.size; k++)
                        if (ml[k].promoteTo() != Piece::EMPTY) { cat = "promo"; ci = 6; break; }
                }
                // a mate given by the 100th reversible half-move (root clock 99; 98/97: one or two quiet plies earlier) is still a mate
                if (ml.size > 1 && want(7, 6)) {
                    bool quietMate = false;
                    for (int k = 0; k < ml.size && !quietMate; k++) {
                        int pc = pos.getPiece(ml[k].from());
                        if (pos.getPiece(ml[k].to()) != Piece::EMPTY || pc == Piece::WPAWN || pc == Piece::BPAWN) continue;
                        Position nx(pos); UndoInfo ui2; nx.makeMove(ml[k], ui2);
                        MoveList rl; legalMoves(nx, rl);
                        quietMate = rl.size == 0 && MoveGen::inCheck(nx);
                    }
                    if (quietMate) {
                        Position fm(pos);
                        fm.setEpSquare(Square(-1));
                        fm.setHalfMoveClock(rnd.nextInt(4) ? 99 : 98);
                        fm.setFullMoveCounter(70);
                        MoveList fl; legalMoves(fm, fl);
                        emit("fiftymate", fm, TextIO::toFEN(fm), {}, fl.size); quota[7]++; emitted++;
                    }
                }
                if (cat && want(ci, ci == 4 ? 10 : 8) && (ci == 6 || rnd.nextInt(3) == 0)) { emit(cat, pos, start, hist, ml.size); quota[ci]++; emitted++; }
                else if (!cat && rnd.nextInt(25) == 0 && want(0, 45)) { emit("game", pos, start, hist, ml.size); quota[0]++; emitted++; }
                if (ml.size == 0 || pos.getHalfMoveClock() >= 100) break;
                UndoInfo ui;
                Move m = ml[rnd.nextInt(ml.size)];
                pos.makeMove(m, ui);
                hist.push_back(m);
            }
        } else {
            RawPos r = gen.gen();
            Position pos;
            try { pos = TextIO::readFEN(rawFen(r)); } catch (const ChessParseError&) { continue; }
            MoveList ml;
            legalMoves(pos, ml);
            if (want(5, 20)) { emit("synth", pos, TextIO::toFEN(pos), {}, ml.size); quota[5]++; emitted++; }
        }
    }
    return 0;
}
