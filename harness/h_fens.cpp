// Root-position corpus for the engine-level checks (C03, C04, C11, C13, C14).
// usage: h_fens <seed> <count>
// Prints ND-JSON lines {"cat":..., "fen":..., "hist":[uci moves from "start"], "start":fen, "nlegal":n}
// Categories: game (random legal game position, with its move history), mate, stalemate,
// single (one legal move), fifty (half-move clock 97..99), sparse (<= 6 men), synth.
#include "hcommon.hpp"
#include "hgen.hpp"
#include <iostream>
using namespace vh;

static void emit(const char* cat, const Position& pos, const std::string& start, const std::vector<Move>& hist, int nLegal) {
    std::string h = "[";
    for (size_t i = 0; i < hist.size(); i++) { if (i) h += ','; h += "\"" + TextIO::moveToUCIString(hist[i]) + "\""; }
    h += "]";
    printf("{\"cat\":\"%s\",\"fen\":\"%s\",\"start\":\"%s\",\"hist\":%s,\"nlegal\":%d}\n", cat, TextIO::toFEN(pos).c_str(),
           start.c_str(), h.c_str(), nLegal);
}

int main(int argc, char** argv) {
    U64 seed = argc > 1 ? std::stoull(argv[1]) : 1;
    int count = argc > 2 ? atoi(argv[2]) : 100;
    vh::init();
    Random rnd(seed, 0xFE5);
    Gen gen(rnd);
    const auto& fens = startFens();
    int emitted = 0;
    int quota[8] = {0};
    auto want = [&](int cat, int share) { return quota[cat] * 100 < share * (emitted + 1) + 100; };
    while (emitted < count) {
        int mode = rnd.nextInt(10);
        if (mode < 7) {
            std::string start = (rnd.nextInt(2) == 0) ? fens[0] : fens[rnd.nextInt((int)fens.size())];
            Position pos = TextIO::readFEN(start);
            std::vector<Move> hist;
            int maxPly = 6 + rnd.nextInt(140);
            for (int ply = 0; ply < maxPly && emitted < count; ply++) {
                MoveList ml;
                legalMoves(pos, ml);
                const char* cat = nullptr;
                int ci = 0;
                if (ml.size == 0) { cat = MoveGen::inCheck(pos) ? "mate" : "stalemate"; ci = 1; }
                else if (ml.size == 1) { cat = "single"; ci = 2; }
                else if (pos.getHalfMoveClock() >= 97) { cat = "fifty"; ci = 3; }
                else if (pos.nPieces() <= 6) { cat = "sparse"; ci = 4; }
                if (cat && want(ci, ci == 4 ? 10 : 8) && rnd.nextInt(3) == 0) { emit(cat, pos, start, hist, ml.size); quota[ci]++; emitted++; }
                else if (!cat && rnd.nextInt(25) == 0 && want(0, 45)) { emit("game", pos, start, hist, ml.size); quota[0]++; emitted++; }
                if (ml.size == 0 || pos.getHalfMoveClock() >= 100) break;
                UndoInfo ui;
                Move m = ml[rnd.nextInt(ml.size)];
                pos.makeMove(m, ui);
                hist.push_back(m);
            }
        } else {
            RawPos r = gen.gen();
            Position pos;
            try { pos = TextIO::readFEN(rawFen(r)); } catch (const ChessParseError&) { continue; }
            MoveList ml;
            legalMoves(pos, ml);
            if (want(5, 20)) { emit("synth", pos, TextIO::toFEN(pos), {}, ml.size); quota[5]++; emitted++; }
        }
    }
    return 0;
}
