// C01 trace recorder: for positions from random legal games and from a synthetic
// placement generator, record what the real move generator says (legal list, specialised
// lists, per-move verdicts) as ND-JSON for validation against spec/Chess.tla by TLC.
//
// usage: h_movegen <seed> <nGames> <nSynthetic> <outPrefix> <nFiles>
// Writes outPrefix.<k>.ndjson (k = 0..nFiles-1) and prints a JSON summary on stdout.
#include "hcommon.hpp"
#include "hgen.hpp"
#include <set>
#include <map>
#include <fstream>
#include <iostream>
#include <algorithm>

using namespace vh;

static std::string listJ(Position& pos, const MoveList& ml, bool inCheck, bool withVerdict) {
    std::string s = "[";
    for (int i = 0; i < ml.size; i++) {
        if (i) s += ',';
        const Move& m = ml[i];
        char buf[64];
        if (withVerdict) {
            bool v = MoveGen::isLegal(pos, m, inCheck);
            snprintf(buf, sizeof(buf), "[%d,%d,%d,%d]", m.from().asInt(), m.to().asInt(), m.promoteTo(), v ? 1 : 0);
        } else {
            snprintf(buf, sizeof(buf), "[%d,%d,%d]", m.from().asInt(), m.to().asInt(), m.promoteTo());
        }
        s += buf;
    }
    return s + "]";
}

struct Stats {
    long positions = 0, inCheck = 0, withEp = 0, withCastle = 0, moves = 0, setpos = 0, rejected = 0;
    long mates = 0, stalemates = 0, promos = 0;
    std::set<U64> distinct, nontrivial;
};

static std::string posEvent(Position& pos, Stats& st) {
    bool chk = MoveGen::inCheck(pos);
    MoveList pl;
    MoveGen::pseudoLegalMoves(pos, pl);
    std::string plJ = listJ(pos, pl, chk, true);
    MoveList legal;
    MoveGen::pseudoLegalMoves(pos, legal);
    MoveGen::removeIllegal(pos, legal);
    std::string lg = "[";
    bool anyPromo = false, canCastle = false, canEp = false;
    for (int i = 0; i < legal.size; i++) {
        const Move& m = legal[i];
        if (i) lg += ',';
        char buf[64];
        snprintf(buf, sizeof(buf), "[%d,%d,%d,%d]", m.from().asInt(), m.to().asInt(), m.promoteTo(),
                 MoveGen::givesCheck(pos, m) ? 1 : 0);
        lg += buf;
        if (m.promoteTo() != Piece::EMPTY) anyPromo = true;
        int p = pos.getPiece(m.from());
        if ((p == Piece::WKING || p == Piece::BKING) && std::abs(m.to().asInt() - m.from().asInt()) == 2) canCastle = true;
        if ((p == Piece::WPAWN || p == Piece::BPAWN) && m.to() == pos.getEpSquare()) canEp = true;
    }
    lg += "]";
    std::string s = "{\"e\":\"Pos\"," + posFieldsJ(pos) + ",\"chk\":" + (chk ? "true" : "false");
    s += ",\"legal\":" + lg + ",\"pl\":" + plJ;
    if (chk) {
        MoveList ev;
        MoveGen::checkEvasions(pos, ev);
        s += ",\"evas\":" + listJ(pos, ev, chk, true);
    } else {
        s += ",\"evas\":[]";
    }
    {
        MoveList c;
        MoveGen::pseudoLegalCaptures(pos, c);
        s += ",\"caps\":" + listJ(pos, c, chk, true);
        MoveList cc;
        MoveGen::pseudoLegalCapturesAndChecks(pos, cc);
        s += ",\"capchk\":" + listJ(pos, cc, chk, true);
    }
    s += "}";
    st.positions++;
    st.moves += legal.size;
    if (chk) st.inCheck++;
    if (canEp) st.withEp++;
    if (canCastle) st.withCastle++;
    if (anyPromo) st.promos++;
    if (legal.size == 0) { if (chk) st.mates++; else st.stalemates++; }
    U64 key = pos.zobristHash();
    st.distinct.insert(key);
    // non-trivial: in check, ep capture possible, castling possible, promotion possible,
    // or some pseudo-legal move is illegal (pin / king walking into attack)
    if (chk || canEp || canCastle || anyPromo || pl.size != legal.size)
        st.nontrivial.insert(key);
    return s;
}

int main(int argc, char** argv) {
    if (argc < 6) { fprintf(stderr, "usage: h_movegen seed nGames nSynthetic outPrefix nFiles\n"); return 2; }
    U64 seed = std::stoull(argv[1]);
    int nGames = atoi(argv[2]), nSyn = atoi(argv[3]);
    std::string prefix = argv[4];
    int nFiles = atoi(argv[5]);
    vh::init();
    std::vector<std::ofstream> out(nFiles);
    for (int k = 0; k < nFiles; k++) {
        out[k].open(prefix + "." + std::to_string(k) + ".ndjson");
        out[k] << "{\"e\":\"Meta\",\"check\":\"C01\",\"seed\":" << seed << "}\n";
    }
    Stats st;
    Random rnd(seed, 0xC01);
    std::vector<std::string> samples;
    const auto& fens = startFens();
    for (int g = 0; g < nGames; g++) {
        std::ofstream& os = out[g % nFiles];
        const std::string& fen = (g % 3 == 0) ? fens[0] : fens[rnd.nextInt((int)fens.size())];
        Position pos = TextIO::readFEN(fen);
        int maxPly = 40 + rnd.nextInt(160);
        for (int ply = 0; ply < maxPly; ply++) {
            os << posEvent(pos, st) << "\n";
            MoveList ml;
            legalMoves(pos, ml);
            if (ml.size == 0 || pos.getHalfMoveClock() >= 100) break;
            // bias towards captures/promotions a little so that games reach sparse material
            Move m = ml[rnd.nextInt(ml.size)];
            if (rnd.nextInt(4) == 0) {
                for (int i = 0; i < ml.size; i++)
                    if (ml[i].promoteTo() != Piece::EMPTY) { m = ml[i]; break; }
            }
            UndoInfo ui;
            pos.makeMove(m, ui);
        }
        if (g < 2) samples.push_back("game from " + fen + " ending in " + TextIO::toFEN(pos));
    }
    Gen gen(rnd);
    for (int i = 0; i < nSyn; i++) {
        std::ofstream& os = out[i % nFiles];
        RawPos r;
        std::string fen;
        bool accepted = true;
        Position pos;
        for (int attempt = 0; attempt < 20; attempt++) {   // keep ~10% rejected inputs
            r = gen.gen();
            fen = rawFen(r);
            accepted = true;
            try { pos = TextIO::readFEN(fen); } catch (const ChessParseError&) { accepted = false; }
            if (accepted || rnd.nextInt(100) < 12) break;
        }
        st.setpos++;
        os << "{\"e\":\"SetPos\",\"fen\":\"" << fen << "\",\"raw\":{" << rawFieldsJ(r) << "},\"accepted\":"
           << (accepted ? "true" : "false");
        if (accepted) os << ",\"pos\":{" << posFieldsJ(pos) << "}";
        os << "}\n";
        if (!accepted) { st.rejected++; continue; }
        if (i < 3) samples.push_back("synthetic " + fen);
        os << posEvent(pos, st) << "\n";
        int extra = rnd.nextInt(3);
        for (int j = 0; j < extra; j++) {
            MoveList ml;
            legalMoves(pos, ml);
            if (ml.size == 0) break;
            UndoInfo ui;
            pos.makeMove(ml[rnd.nextInt(ml.size)], ui);
            os << posEvent(pos, st) << "\n";
        }
    }
    for (auto& o : out) o.close();
    printf("{\"positions\":%ld,\"moves\":%ld,\"inCheck\":%ld,\"withEp\":%ld,\"withCastle\":%ld,\"promos\":%ld,"
           "\"mates\":%ld,\"stalemates\":%ld,\"setpos\":%ld,\"rejected\":%ld,\"distinct\":%zu,\"nontrivial\":%zu,\"samples\":[",
           st.positions, st.moves, st.inCheck, st.withEp, st.withCastle, st.promos, st.mates, st.stalemates,
           st.setpos, st.rejected, st.distinct.size(), st.nontrivial.size());
    for (size_t i = 0; i < samples.size(); i++) printf("%s\"%s\"", i ? "," : "", jsonEsc(samples[i]).c_str());
    printf("]}\n");
    return 0;
}
