// C01 trace recorder: for positions from random legal games and from a synthetic
// placement generator, record what the real move generator says (legal list, specialised
// lists, per-move verdicts) as ND-JSON for validation against spec/Chess.tla by TLC.
//
// usage: h_movegen <seed> <nGames> <nSynthetic> <outPrefix> <nFiles>
// Writes outPrefix.<k>.ndjson (k = 0..nFiles-1) and prints a JSON summary on stdout.
#include "hcommon.hpp"
#include "hgen.hpp"
#include <set>
#include <map>
#include <fstream>
#include <iostream>
#include <algorithm>

using namespace vh;

static std::string listJ(Position& pos, const MoveList& ml, bool inCheck, bool withVerdict) {
    std::string s = "[";
    for (int i = 0; i < ml.size; i++) {
        if (i) s += ',';
        const Move& m = ml[i];
        char buf[64];
        if (withVerdict) {
            bool v = MoveGen::isLegal(pos, m, inCheck);
            snprintf(buf, sizeof(buf), "[%d,%d,%d,%d]", m.from().asInt(), m.to().asInt(), m.promoteTo(), v ? 1 : 0);
        } else {
            snprintf(buf, sizeof(buf), "[%d,%d,%d]", m.from().asInt(), m.to().asInt(), m.promoteTo());
        }
        s += buf;
    }
    return s + "]";
}

struct Stats {
    long positions = 0, inCheck = 0, withEp = 0, withCastle = 0, moves = 0, setpos = 0, rejected = 0;
    long mates = 0, stalemates = 0, promos = 0;
    std::set<U64> distinct, nontrivial;
};

static std::string posEvent(Position& pos, Stats& st) {
    bool chk = MoveGen::inCheck(pos);
    MoveList pl;
    MoveGen::pseudoLegalMoves(pos, pl);
    std::string plJ = listJ(pos, pl, chk, true);
    MoveList legal;
    MoveGen::pseudoLegalMoves(pos, legal);
    MoveGen::removeIllegal(pos, legal);
    std::string lg = "[";
    bool anyPromo = false, canCastle = false, canEp = false;
    for (int i = 0; i < legal.size; i++) {
        const Move& m = legal[i];
        if (i) lg += ',';
        char buf[64];
        snprintf(buf, sizeof(buf), "[%d,%d,%d,%d]", m.from().asInt(), m.to().asInt(), m.promoteTo(),
                 MoveGen::givesCheck(pos, m) ? 1 : 0);
        lg += buf;
        if (m.promoteTo() != Piece::EMPTY) anyPromo = true;
        int p = pos.getPiece(m.from());
        if ((p == Piece::WKING || p == Piece::BKING) && std::abs(m.to().asInt() - m.from().asInt()) == 2) canCastle = true;
        if ((p == Piece::WPAWN || p == Piece::BPAWN) && m.to() == pos.getEpSquare()) canEp = true;
    }
    lg += "]";
    std::string s = "{\"e\":\"Pos\"," + posFieldsJ(pos) + ",\"chk\":" + (chk ? "true" : "false");
    s += ",\"legal\":" + lg + ",\"pl\":" + plJ;
    if (chk) {
        MoveList ev;
        MoveGen::checkEvasions(pos, ev);
        s += ",\"evas\":" + listJ(pos, ev, chk, true);
    } else {
        s += ",\"evas\":[]";
    }
    {
        MoveList c;
        MoveGen::pseudoLegalCaptures(pos, c);
        s += ",\"caps\":" + listJ(pos, c, chk, true);
        MoveList cc;
        MoveGen::pseudoLegalCapturesAndChecks(pos, cc);
        s += ",\"capchk\":" + listJ(pos, cc, chk, true);
    }
    s += "}";
    st.positions++;
    st.moves += legal.size;
    if (chk) st.inCheck++;
    if (canEp) st.withEp++;
    if (canCastle) st.withCastle++;
    if (anyPromo) st.promos++;
    if (legal.size == 0) { if (chk) st.mates++; else st.stalemates++; }
    U64 key = pos.zobristHash();
    st.distinct.insert(key);
    // non-trivial: in check, ep capture possible, castling possible, promotion possible,
    // or some pseudo-legal move is illegal (pin / king walking into attack)
    if (chk || canEp || canCastle || anyPromo || pl.size != legal.size)
        st.nontrivial.insert(key);
    return s;
}

int main(int argc, char** argv) {
    if (argc < 6) { fprintf(stderr, "usage: h_movegen seed nGames nSynthetic outPrefix nFiles\n"); return 2; }
    U64 seed = std::stoull(argv[1]);
    int nGames = atoi(argv[2]), nSyn = atoi(argv[3]);
    std::string prefix = argv[4];
    int nFiles = atoi(argv[5]);
    vh::init();
    std::vector<std::ofstream> out(nFiles);
    for (int k = 0; k < nFiles; k++) {
        out[k].open(prefix + "." + std::to_string(k) + ".ndjson");
        out[k] << "{\"e\":\"Meta\",\"check\":\"C01\",\"seed\":" << seed << "}\n";
    }
    Stats st;
    Random rnd(seed, 0xC01);
    std::vector<std::string> samples;
    const auto& fens = startFens();
    for (int g = 0; g < nGames; g++) {
        std::ofstream& os = out[g % nFiles];
        const std::string& fen = (g % 3 == 0) ? fens[0] : fens[rnd.nextInt((int)fens.size())];
        Position pos = TextIO::readFEN(fen);
        int maxPly = 40 + rnd.nextInt(160);
        for (int ply = 0; ply < maxPly; ply++) {
            os << posEvent(pos, st) << "\n";
            MoveList ml;
            legalMoves(pos, ml);
            if (ml.size == 0 || pos.getHalfMoveClock() >= 100) break;
            // bias towards captures/promotions a little so that games reach sparse material
            Move m = ml[rnd.nextInt(ml.size)];
            if (rnd.nextInt(4) == 0) {
                for (int i = 0; i < ml.size; i++)
                    if (ml[i].promoteTo() != Piece::EMPTY) { m = ml[i]; break; }
            }
            UndoInfo ui;
            pos.makeMove(m, ui);
        }
        if (g < 2) samples.push_back("game from " + fen + " ending in " + TextIO::toFEN(pos));
    }
    // constructed en-passant families (rare in random play, and every en-passant shortcut of the generator has its own geometry):
    //  (a) the king is in check by a pawn that has just made a double step and an own pawn can take it en passant - checking pawn on
    //      either side of the king, capturing pawn on either side of the checking pawn, edge files included;
    //  (b) the en-passant capture removes both pawns from the rank between an own rook/queen and the enemy king (either order).
    // Both colours (the black versions are the white ones with colours swapped and the board turned upside down).
    {
        auto flipFen = [](const std::string& fen, int epFile) {
            std::string rows[8]; int ri = 0;
            for (char ch : fen.substr(0, fen.find(' '))) { if (ch == '/') ri++; else rows[ri] += (char)(isalpha(ch) ? (isupper(ch) ? tolower(ch) : toupper(ch)) : ch); }
            std::string f2;
            for (int r = 7; r >= 0; r--) { f2 += rows[r]; if (r) f2 += '/'; }
            return f2 + " b - " + (char)('a' + epFile) + "3 0 1";
        };
        int made = 0;
        for (long tries = 0; tries < 400000 && made < std::max(40, nSyn / 12); tries++) {
            int board[64] = {0};
            int epFile;
            auto put = [&](int pc, int forbidFile) { for (int t = 0; t < 60; t++) { int sq = rnd.nextInt(64); if (board[sq] || sq / 8 == 4 || (sq % 8 == forbidFile && sq / 8 >= 5)) continue;
                                                     if ((pc == Piece::WPAWN || pc == Piece::BPAWN) && (sq < 8 || sq >= 56)) continue; board[sq] = pc; return; } };
            if (rnd.nextInt(2) == 0) {          // (a)
                int xk = rnd.nextInt(8);
                int xp = xk + (rnd.nextInt(2) ? 1 : -1);
                if (xp < 0 || xp > 7) continue;
                board[3 * 8 + xk] = Piece::WKING;
                board[4 * 8 + xp] = Piece::BPAWN;
                bool any = false;
                for (int dx = -1; dx <= 1; dx += 2) { int xc = xp + dx; if (xc < 0 || xc > 7 || rnd.nextInt(3) == 0) continue; board[4 * 8 + xc] = Piece::WPAWN; any = true; }
                if (!any) continue;
                epFile = xp;
            } else {                            // (b)
                bool kingRight = rnd.nextInt(2) == 0;
                int xk = kingRight ? 7 - rnd.nextInt(3) : rnd.nextInt(3);
                int xr = kingRight ? rnd.nextInt(3) : 7 - rnd.nextInt(3);
                int lo = std::min(xk, xr) + 1, hi = std::max(xk, xr) - 1;
                if (hi - lo < 1) continue;
                int xa = lo + rnd.nextInt(hi - lo);
                bool whiteFirst = rnd.nextInt(2) == 0;
                int xw = whiteFirst ? xa : xa + 1, xb = whiteFirst ? xa + 1 : xa;
                board[4 * 8 + xk] = Piece::BKING;
                board[4 * 8 + xr] = rnd.nextInt(3) ? Piece::WROOK : Piece::WQUEEN;
                board[4 * 8 + xw] = Piece::WPAWN;
                board[4 * 8 + xb] = Piece::BPAWN;
                epFile = xb;
            }
            bool hasWK = false, hasBK = false;
            for (int sq = 0; sq < 64; sq++) { hasWK |= board[sq] == Piece::WKING; hasBK |= board[sq] == Piece::BKING; }
            if (!hasWK) put(Piece::WKING, epFile);
            if (!hasBK) put(Piece::BKING, epFile);
            static const int extra[] = {Piece::WKNIGHT, Piece::BKNIGHT, Piece::WBISHOP, Piece::BROOK, Piece::WPAWN, Piece::BPAWN, Piece::BQUEEN, Piece::WROOK};
            for (int k = rnd.nextInt(4); k > 0; k--) put(extra[rnd.nextInt(8)], epFile);
            std::string fen;
            for (int y = 7; y >= 0; y--) {
                int e = 0;
                for (int x = 0; x < 8; x++) { int pc = board[y * 8 + x]; if (!pc) { e++; continue; } if (e) { fen += std::to_string(e); e = 0; } fen += " KQRBNPkqrbnp"[pc]; }
                if (e) fen += std::to_string(e);
                if (y) fen += '/';
            }
            fen += std::string(" w - ") + (char)('a' + epFile) + "6 0 1";
            if (rnd.nextInt(2)) fen = flipFen(fen, epFile);
            Position pos;
            try { pos = TextIO::readFEN(fen); } catch (const ChessParseError&) { continue; }
            if (!pos.getEpSquare().isValid()) continue;
            out[made % nFiles] << posEvent(pos, st) << "\n";
            if (made < 2) samples.push_back("en-passant family " + fen);
            made++;
        }
    }
    Gen gen(rnd);
    for (int i = 0; i < nSyn; i++) {
        std::ofstream& os = out[i % nFiles];
        RawPos r;
        std::string fen;
        bool accepted = true;
        Position pos;
        for (int attempt = 0; attempt < 20; attempt++) {   // keep ~10% rejected inputs
            r = gen.gen();
            fen = rawFen(r);
            accepted = true;
            try { pos = TextIO::readFEN(fen); } catch (const ChessParseError&) { accepted = false; }
            if (accepted || rnd.nextInt(100) < 12) break;
        }
        st.setpos++;
        os << "{\"e\":\"SetPos\",\"fen\":\"" << fen << "\",\"raw\":{" << rawFieldsJ(r) << "},\"accepted\":"
           << (accepted ? "true" : "false");
        if (accepted) os << ",\"pos\":{" << posFieldsJ(pos) << "}";
        os << "}\n";
        if (!accepted) { st.rejected++; continue; }
        if (i < 3) samples.push_back("synthetic " + fen);
        os << posEvent(pos, st) << "\n";
        int extra = rnd.nextInt(3);
        for (int j = 0; j < extra; j++) {
            MoveList ml;
            legalMoves(pos, ml);
            if (ml.size == 0) break;
            UndoInfo ui;
            pos.makeMove(ml[rnd.nextInt(ml.size)], ui);
            os << posEvent(pos, st) << "\n";
        }
    }
    for (auto& o : out) o.close();
    printf("{\"positions\":%ld,\"moves\":%ld,\"inCheck\":%ld,\"withEp\":%ld,\"withCastle\":%ld,\"promos\":%ld,"
           "\"mates\":%ld,\"stalemates\":%ld,\"setpos\":%ld,\"rejected\":%ld,\"distinct\":%zu,\"nontrivial\":%zu,\"samples\":[",
           st.positions, st.moves, st.inCheck, st.withEp, st.withCastle, st.promos, st.mates, st.stalemates,
           st.setpos, st.rejected, st.distinct.size(), st.nontrivial.size());
    for (size_t i = 0; i < samples.size(); i++) printf("%s\"%s\"", i ? "," : "", jsonEsc(samples[i]).c_str());
    printf("]}\n");
    return 0;
}
