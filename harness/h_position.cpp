// C02 trace recorder: random make/unmake histories on the real Position with all
// incrementally maintained attributes logged after every step, for validation against
// spec/Tr_Position.tla (stack machine over Chess.tla states).
//
// usage: h_position <seed> <nWalks> <outPrefix> <nFiles> [maxPly]
#include "hcommon.hpp"
#include "hgen.hpp"
#include "parameters.hpp"
#include <map>
#include <set>
#include <fstream>
#include <iostream>

using namespace vh;

static std::string stateFields(const Position& pos) {
    std::string s = posFieldsJ(pos);
    Position c(pos);
    U64 scratch = c.computeZobristHash();      // mutates its object: use the copy
    s += ",\"hash\":" + hex64(pos.zobristHash()) + ",\"scratch\":" + hex64(scratch);
    s += ",\"phash\":" + hex64(pos.pawnZobristHash()) + ",\"pscratch\":" + hex64(c.pawnZobristHash());
    unsigned int id = (unsigned int)pos.materialId();
    s += ",\"matW\":" + std::to_string(id & 0xffff) + ",\"matB\":" + std::to_string(id >> 16);
    s += ",\"wMtrl\":" + std::to_string(pos.wMtrl()) + ",\"bMtrl\":" + std::to_string(pos.bMtrl());
    s += ",\"wPawn\":" + std::to_string(pos.wMtrlPawns()) + ",\"bPawn\":" + std::to_string(pos.bMtrlPawns());
    s += ",\"wK\":" + std::to_string(pos.getKingSq(true).asInt()) + ",\"bK\":" + std::to_string(pos.getKingSq(false).asInt());
    // piece sets folded to a board: entry = the piece type whose set contains the square
    // (0 none, 100 = more than one set claims the square); colour sets: 1 white, 2 black, 3 both
    std::string pbb = "[", cbb = "[";
    for (int sq = 0; sq < 64; sq++) {
        int found = 0, n = 0;
        for (int p = 1; p < Piece::nPieceTypes; p++)
            if (pos.pieceTypeBB((Piece::Type)p) & (1ULL << sq)) { found = p; n++; }
        int col = ((pos.whiteBB() >> sq) & 1) + 2 * ((pos.blackBB() >> sq) & 1);
        if (sq) { pbb += ','; cbb += ','; }
        pbb += std::to_string(n > 1 ? 100 : found);
        cbb += std::to_string(col);
    }
    s += ",\"pbb\":" + pbb + "],\"cbb\":" + cbb + "]";
    s += std::string(",\"occOk\":") + ((pos.occupiedBB() == (pos.whiteBB() | pos.blackBB())) ? "true" : "false");
    {   // the library's own from-scratch material signature (built from piece counts) against the incrementally maintained one
        MatId id;
        for (int pc = Piece::WQUEEN; pc <= Piece::BPAWN; pc++)
            if (pc != Piece::BKING) id.addPieceCnt(pc, BitBoard::bitCount(pos.pieceTypeBB((Piece::Type)pc)));
        s += std::string(",\"matCntOk\":") + (id() == pos.materialId() ? "true" : "false");
    }
    return s;
}

static std::string groupKey(const Position& pos) {
    std::string k;
    for (int sq = 0; sq < 64; sq++) k += char('a' + pos.getPiece(Square(sq)));
    k += pos.isWhiteMove() ? 'w' : 'b';
    k += char('A' + pos.getCastleMask());
    return k;
}
static std::string pawnKey(const Position& pos) {
    std::string k;
    for (int sq = 0; sq < 64; sq++) { int p = pos.getPiece(Square(sq)); k += (p == Piece::WPAWN) ? 'P' : (p == Piece::BPAWN) ? 'p' : '.'; }
    return k;
}
static std::string briefJ(const Position& pos) {
    return "{" + posFieldsJ(pos) + ",\"hash\":" + hex64(pos.zobristHash()) + ",\"phash\":" + hex64(pos.pawnZobristHash()) + "}";
}

static long fenEventsG = 0;
static void emitFenSer(std::ostream& os, const Position& pos) {
    std::string fen = TextIO::toFEN(pos);
    Position rr = TextIO::readFEN(fen);
    os << "{\"e\":\"Fen\",\"text\":\"" << fen << "\",\"re\":" << briefJ(rr) << ",\"orig\":" << briefJ(pos)
       << ",\"eq\":" << (rr == pos ? "true" : "false") << "}\n";
    // the same position described with and without an en-passant field (a pawn that may just have made a double step): the two
    // texts are read separately; when no en-passant capture is legal they describe rule-equal positions and must read equal
    {
        const bool wtm = pos.isWhiteMove();
        std::vector<int> cand;
        for (int x = 0; x < 8; x++) {
            int y4 = wtm ? 4 : 3, y3 = wtm ? 5 : 2, y2 = wtm ? 6 : 1;
            if (pos.getPiece(Square(x, y4)) == (wtm ? Piece::BPAWN : Piece::WPAWN) && pos.getPiece(Square(x, y3)) == Piece::EMPTY &&
                pos.getPiece(Square(x, y2)) == Piece::EMPTY)
                cand.push_back(y3 * 8 + x);
        }
        if (!cand.empty()) {
            static U64 pick = 0;
            Position a(pos), b(pos);
            a.setEpSquare(Square(cand[(pick++) % cand.size()]));
            b.setEpSquare(Square(-1));
            std::string ta = TextIO::toFEN(a), tb = TextIO::toFEN(b);
            try {
                Position ra = TextIO::readFEN(ta), rb = TextIO::readFEN(tb);
                os << "{\"e\":\"FenEp\",\"text\":\"" << ta << "\",\"a\":" << briefJ(ra) << ",\"b\":" << briefJ(rb)
                   << ",\"eq\":" << (ra == rb ? "true" : "false") << "}\n";
            } catch (const ChessParseError&) {}
        }
    }
    Position::SerializeData sd;
    pos.serialize(sd);
    Position de;
    de.deSerialize(sd);
    os << "{\"e\":\"Ser\",\"re\":{" << stateFields(de) << "},\"eq\":" << (de == pos ? "true" : "false") << "}\n";
    // decode buffers are reused in the engine (worker threads, tree log reader): a long-lived object that still holds the previously
    // decoded position must come out identical as well
    static Position reused = TextIO::readFEN(TextIO::startPosFEN);
    reused.deSerialize(sd);
    os << "{\"e\":\"Ser\",\"re\":{" << stateFields(reused) << "},\"eq\":" << (reused == pos ? "true" : "false") << "}\n";
    fenEventsG++;
}

struct Frame { Move m; UndoInfo ui; int kind; /*0 move,1 null*/ Square ep; int hmc; };

int main(int argc, char** argv) {
    if (argc < 5) { fprintf(stderr, "usage: h_position seed nWalks outPrefix nFiles [maxPly]\n"); return 2; }
    U64 seed = std::stoull(argv[1]);
    int nWalks = atoi(argv[2]);
    std::string prefix = argv[3];
    int nFiles = atoi(argv[4]);
    int maxPlyArg = argc > 5 ? atoi(argv[5]) : 300;
    vh::init();
    std::vector<std::ofstream> out(nFiles);
    std::string pv = "[0";
    for (int p = 1; p < Piece::nPieceTypes; p++) pv += "," + std::to_string(::pieceValue[p]);
    pv += "]";
    for (int k = 0; k < nFiles; k++) {
        out[k].open(prefix + "." + std::to_string(k) + ".ndjson");
        out[k] << "{\"e\":\"Meta\",\"check\":\"C02\",\"seed\":" << seed << ",\"pv\":" << pv << "}\n";
    }
    Random rnd(seed, 0xC02);
    Gen gen(rnd);
    std::vector<std::string> fens = startFens();
    const int pseudoBase = (int)fens.size();
    // pseudo-en-passant family: a double push next to an enemy pawn that is pinned
    fens.push_back("3k4/8/8/8/3p4/8/4P3/3R2K1 w - - 0 1");
    fens.push_back("4k3/8/8/8/2p5/8/3P4/2R1K3 w - - 0 1");
    fens.push_back("2r1k3/3p4/8/2P5/8/8/8/2K5 b - - 0 1");
    fens.push_back("7k/8/8/8/1p6/8/B1P5/K7 w - - 0 1");
    // facing double pushes: each side has an unmoved pawn on one file and a pawn beside the other side's landing square, so a double
    // push that creates an en-passant square can be answered by a double push on the SAME file that creates another one
    fens.push_back("4k3/3p4/8/4P3/2p5/8/3P4/4K3 w - - 0 1");
    fens.push_back("4k3/3p4/8/2P5/4p3/8/3P4/4K3 b - - 0 1");
    fens.push_back("4k3/p7/8/1P6/1p6/8/P7/4K3 w - - 0 1");
    fens.push_back("4k3/7p/8/6P1/6p1/8/7P/4K3 b - - 0 1");
    fens.push_back("r3k2r/pp1p1ppp/8/2P1P3/2p1p3/8/PP1P1PPP/R3K2R w KQkq - 0 1");
    // a king beside an unmoved enemy corner rook whose castling right is still there (the capture must clear the OTHER side's right)
    fens.push_back("r3k3/1K6/8/8/8/8/8/8 w q - 0 1");
    fens.push_back("4k2r/6K1/8/8/8/8/8/8 w k - 0 1");
    fens.push_back("8/8/8/8/8/8/1k6/R3K3 b Q - 0 1");
    fens.push_back("8/8/8/8/8/8/6k1/4K2R b K - 0 1");
    fens.push_back("r3k2r/1K6/8/8/8/8/8/8 w kq - 0 1");
    long events = 0, states = 0, sames = 0, maxQueens = 0, nulls = 0, unmakes = 0;
    std::set<U64> distinct;
    std::vector<std::string> samples;
    std::map<std::string, std::string> firstByKey[64];   // per output file (consistency is checked per file)
    std::map<std::string, std::string> firstByPawnKey[64];
    for (int wk = 0; wk < nWalks; wk++) {
        int fi = wk % nFiles;
        std::ofstream& os = out[fi];
        Position pos;
        int style = rnd.nextInt(10);
        bool promoBias = false, pseudoEpStart = false;
        if (style < 2) {
            for (int a = 0; a < 50; a++) {
                RawPos r = gen.gen();
                try { pos = TextIO::readFEN(rawFen(r)); break; } catch (const ChessParseError&) { pos = TextIO::readFEN(fens[0]); }
            }
        } else if (style < 4) {
            static const char* promoFens[] = {
                "4k3/pppppppp/8/8/8/8/PPPPPPPP/4K3 w - - 0 1",
                "7k/8/8/8/8/8/PPPPPPPP/3QK3 w - - 0 1",
                "3qk3/pppppppp/8/8/8/8/8/7K b - - 0 1",
                "3qk3/pppp4/8/8/8/8/4PPPP/3QK3 w - - 0 1",
                "7k/P7/8/Q7/QQQ5/QQ6/Q1Q5/4K3 w - - 0 1",
                "4k3/q1q5/qq6/qqq5/q7/8/p7/7K b - - 0 1",
                "rnbqkbnr/pppppppp/8/8/8/8/PPPPPPPP/RNBQKBNR w KQkq - 0 1",
                "3qk3/1ppp4/8/8/p7/8/4PPPP/1n1QK3 b - - 0 1",
            };
            pos = TextIO::readFEN(promoFens[rnd.nextInt(8)]);
            promoBias = true;
        } else {
            int idx = rnd.nextInt((int)fens.size());
            pos = TextIO::readFEN(fens[idx]);
            pseudoEpStart = idx >= pseudoBase;
        }
        if (rnd.nextInt(6) == 0) {
            // games that go on past the 50-move mark (nobody has to claim the draw): clocks up to 160 reach every consumer of the clock
            int h = 90 + rnd.nextInt(40);
            // ... and the width boundaries of whatever holds the clock on the way (a signed / unsigned byte): 126..131, 200..250
            int wide = rnd.nextInt(3);
            if (wide == 0) h = 126 + rnd.nextInt(6); else if (wide == 1 && rnd.nextInt(2) == 0) h = 200 + rnd.nextInt(51);
            pos.setHalfMoveClock(h);
            pos.setFullMoveCounter(std::max(pos.getFullMoveCounter(), h / 2 + 2));
        }
        os << "{\"e\":\"Reset\"," << posFieldsJ(pos) << "}\n";
        os << "{\"e\":\"State\"," << stateFields(pos) << "}\n";
        std::vector<Frame> stack;
        int takeBackSoon = 0;
        stack.reserve(512);
        int maxPly = promoBias ? maxPlyArg : 20 + rnd.nextInt(maxPlyArg - 19);
        int steps = 0;
        std::string startFen = TextIO::toFEN(pos);
        while (steps < maxPly) {
            steps++;
            int act = rnd.nextInt(100);
            if (takeBackSoon > 0 && --takeBackSoon == 0) act = 0;      // scheduled take-back (see the same-file double push below)
            bool inNull = false;
            for (auto& f : stack) if (f.kind == 1) inNull = true;
            if (act < 12 && !stack.empty() && !(promoBias && steps < 160)) {
                // forced take-back segment
                int k = 1 + rnd.nextInt((int)std::min<size_t>(stack.size(), 12));
                for (int i = 0; i < k; i++) {
                    Frame f = stack.back(); stack.pop_back();
                    if (f.kind == 0) {
                        pos.unMakeMove(f.m, f.ui);
                        os << "{\"e\":\"Unmv\"}\n";
                    } else {
                        pos.setEpSquare(f.ep);
                        pos.setWhiteMove(!pos.isWhiteMove());
                        pos.setHalfMoveClock(f.hmc);
                        os << "{\"e\":\"NullOff\"}\n";
                    }
                    unmakes++;
                    os << "{\"e\":\"State\"," << stateFields(pos) << "}\n"; states++;
                }
                continue;
            }
            if (act < 16 && !inNull && !MoveGen::inCheck(pos)) {
                // null-move style edit exactly as Search::negaScout performs it
                Frame f; f.kind = 1; f.ep = pos.getEpSquare(); f.hmc = pos.getHalfMoveClock();
                pos.setWhiteMove(!pos.isWhiteMove());
                pos.setEpSquare(Square(-1));
                pos.setHalfMoveClock(0);
                stack.push_back(f);
                nulls++;
                os << "{\"e\":\"NullOn\"}\n";
                os << "{\"e\":\"State\"," << stateFields(pos) << "}\n"; states++;
                continue;
            }
            if (act < 19) {
                Position c(pos);            // copy construction, continue with the copy
                Position d;
                d = c;                      // assignment
                pos = std::move(d);
                os << "{\"e\":\"Copy\"}\n";
                os << "{\"e\":\"State\"," << stateFields(pos) << "}\n"; states++;
                continue;
            }
            if (act < 23 && !inNull) {
                emitFenSer(os, pos);
                continue;
            }
            MoveList ml;
            legalMoves(pos, ml);
            if (ml.size == 0 || pos.getHalfMoveClock() >= 100) {
                if (stack.empty()) break;
                // dead end: take everything back a bit and go on
                Frame f = stack.back(); stack.pop_back();
                if (f.kind == 0) { pos.unMakeMove(f.m, f.ui); os << "{\"e\":\"Unmv\"}\n"; }
                else { pos.setEpSquare(f.ep); pos.setWhiteMove(!pos.isWhiteMove()); pos.setHalfMoveClock(f.hmc); os << "{\"e\":\"NullOff\"}\n"; }
                os << "{\"e\":\"State\"," << stateFields(pos) << "}\n"; states++;
                continue;
            }
            // weighted move choice
            int best = 0; U64 bestW = 0;
            for (int i = 0; i < ml.size; i++) {
                const Move& m = ml[i];
                int p = pos.getPiece(m.from());
                bool pawn = p == Piece::WPAWN || p == Piece::BPAWN;
                bool cap = pos.getPiece(m.to()) != Piece::EMPTY;
                U64 w = 16;
                if (promoBias) {
                    if (m.promoteTo() == Piece::WQUEEN || m.promoteTo() == Piece::BQUEEN) w = 4000;
                    else if (pawn && !cap) w = 200;
                    else if (cap && (pos.getPiece(m.to()) == Piece::WPAWN || pos.getPiece(m.to()) == Piece::BPAWN)) w = 1;
                    else if (cap) w = 2;
                } else {
                    if (pawn && std::abs(m.to().asInt() - m.from().asInt()) == 16) w = 48;
                    if (m.promoteTo() != Piece::EMPTY) w = 40;
                    if ((p == Piece::WKING || p == Piece::BKING) && std::abs(m.to().asInt() - m.from().asInt()) == 2) w = 200;
                    if (pawn && m.to() == pos.getEpSquare()) w = 300;
                    // a double push answered at once by a double push on the same file, both creating an en-passant square, then taken back:
                    // the setter sees two different squares with the same file
                    if (pawn && std::abs(m.to().asInt() - m.from().asInt()) == 16 && pos.getEpSquare().isValid() && pos.getEpSquare().getX() == m.to().getX()) w = 3000;
                }
                if (pseudoEpStart && steps <= 2 && pawn && std::abs(m.to().asInt() - m.from().asInt()) == 16) w = 100000;
                U64 r = (rnd.nextU64() >> 20) % (w * 1000 + 1);
                if (r >= bestW) { bestW = r; best = i; }
            }
            Frame f; f.kind = 0; f.m = ml[best];
            {
                int p0 = pos.getPiece(f.m.from());
                if ((p0 == Piece::WPAWN || p0 == Piece::BPAWN) && std::abs(f.m.to().asInt() - f.m.from().asInt()) == 16 && pos.getEpSquare().isValid() && rnd.nextInt(2) == 0)
                    takeBackSoon = 1 + rnd.nextInt(2);
            }
            pos.makeMove(f.m, f.ui);
            stack.push_back(f);
            os << "{\"e\":\"Mv\",\"m\":" << mvJ(f.m) << "}\n";
            os << "{\"e\":\"State\"," << stateFields(pos) << "}\n"; states++;
            distinct.insert(pos.zobristHash());
            if (!inNull && pos.getEpSquare().isValid() && rnd.nextInt(100) < 50)
                emitFenSer(os, pos);      // ep state straight out of makeMove crosses the FEN form
            int q = BitBoard::bitCount(pos.pieceTypeBB(Piece::WQUEEN)) ;
            int bq = BitBoard::bitCount(pos.pieceTypeBB(Piece::BQUEEN));
            maxQueens = std::max<long>(maxQueens, std::max(q, bq));
            // functional consistency pairs
            if (!inNull) {
                if (firstByKey[fi].size() > 150000) firstByKey[fi].clear();
                if (firstByPawnKey[fi].size() > 150000) firstByPawnKey[fi].clear();
                std::string gk = groupKey(pos);
                auto it = firstByKey[fi].find(gk);
                if (it == firstByKey[fi].end()) firstByKey[fi][gk] = briefJ(pos);
                else if (rnd.nextInt(100) < 40) { os << "{\"e\":\"Same\",\"kind\":\"pos\",\"a\":" << it->second << ",\"b\":" << briefJ(pos) << "}\n"; sames++; }
                std::string pk = pawnKey(pos);
                auto ip = firstByPawnKey[fi].find(pk);
                if (ip == firstByPawnKey[fi].end()) firstByPawnKey[fi][pk] = briefJ(pos);
                else if (rnd.nextInt(100) < 3) { os << "{\"e\":\"Same\",\"kind\":\"pawn\",\"a\":" << ip->second << ",\"b\":" << briefJ(pos) << "}\n"; sames++; }
            }
        }
        if (samples.size() < 3) samples.push_back("walk of " + std::to_string(steps) + " steps from " + startFen + " ending at " + TextIO::toFEN(pos));
        events += steps;
    }
    for (auto& o : out) o.close();
    printf("{\"walks\":%d,\"steps\":%ld,\"states\":%ld,\"unmakes\":%ld,\"nulls\":%ld,\"fenser\":%ld,\"same_pairs\":%ld,\"maxQueensOneSide\":%ld,\"distinct\":%zu,\"samples\":[",
           nWalks, events, states, unmakes, nulls, fenEventsG, sames, maxQueens, distinct.size());
    for (size_t i = 0; i < samples.size(); i++) printf("%s\"%s\"", i ? "," : "", jsonEsc(samples[i]).c_str());
    printf("]}\n");
    return 0;
}
