// Synthetic evaluation networks (DESIGN.md 4.2).  The sandbox ships an emptied
// nndata.tbin.compr, so every engine-level check links one of these instead.
// usage: gennet <out.compr> <name>     name in {rand1, rand2, material, extreme, overflow}
#include "nntypes.hpp"
#include "random.hpp"
#include <fstream>
#include <sstream>
#include <iostream>
#include <vector>
#include <cstring>
extern "C" {
#include "Lzma86Enc.h"
}

static int pieceUnit(int pt) { // pt: 0..4 = own Q,R,B,N,P ; 5..9 = opponent
    static const int v[5] = {9, 5, 3, 3, 1};
    return v[pt % 5];
}

int main(int argc, char** argv) {
    if (argc < 3) { std::cerr << "usage: gennet out name" << std::endl; return 2; }
    std::string name = argv[2];
    auto netP = NetData::create();
    NetData& net = *netP;
    U64 seed = name == "rand2" ? 20260002 : name == "extreme" ? 777 : name == "overflow" ? 4242 : 20260001;
    Random rnd(seed);
    auto r = [&](int lo, int hi) { return lo + (int)(rnd.nextU64() % (U64)(hi - lo + 1)); };
    const int n1 = NetData::n1;
    if (name == "rand1" || name == "rand2" || name == "extreme" || name == "overflow") {
        // "overflow": first-layer weights so large that the 16-bit accumulators wrap around in ordinary positions; every code path
        // (generic and SIMD, incremental and from scratch) must wrap in the same way
        int a = name == "rand1" ? 20 : name == "rand2" ? 60 : name == "overflow" ? 9000 : 1000;
        int b = name == "rand1" ? 50 : name == "rand2" ? 200 : name == "overflow" ? 30000 : 2000;
        if (name == "overflow") name = "extreme";      // later layers as in the extreme net
        int w2 = name == "rand1" ? 16 : name == "rand2" ? 40 : 127;
        int w3 = name == "rand1" ? 32 : name == "rand2" ? 64 : 127;
        int w4 = name == "rand1" ? 64 : name == "rand2" ? 100 : 127;
        int bb = name == "extreme" ? 100000 : 500;
        for (size_t i = 0; i < COUNT_OF(net.weight1.data); i++) net.weight1.data[i] = r(-a, a);
        for (size_t i = 0; i < COUNT_OF(net.bias1.data); i++) net.bias1.data[i] = r(-b, b);
        for (auto& h : net.head) {
            for (auto& w : h.lin2.weight.data) w = r(-w2, w2);
            for (auto& x : h.lin2.bias.data) x = r(-bb, bb);
            for (auto& w : h.lin3.weight.data) w = r(-w3, w3);
            for (auto& x : h.lin3.bias.data) x = r(-bb, bb);
            for (auto& w : h.lin4.weight.data) w = r(-w4, w4);
            for (auto& x : h.lin4.bias.data) x = r(-bb / 4, bb / 4);
            std::memset(h.dummy, 0, sizeof(h.dummy));
        }
    } else if (name == "material") {
        // l1 neuron 0 = own material, neuron 1 = opponent material (pawn units),
        // neurons 2.. = small random positional noise.
        std::memset(&net.weight1, 0, sizeof(net.weight1));
        std::memset(&net.bias1, 0, sizeof(net.bias1));
        for (int row = 0; row < NetData::inFeatures; row++) {
            int pt = (row / 64) % 10;
            net.weight1(row, pt < 5 ? 0 : 1) = pieceUnit(pt) * 4;
            for (int j = 2; j < 18; j++) net.weight1(row, j) = r(-8, 8);
        }
        for (int j = 2; j < 18; j++) net.bias1(j) = 100;
        for (auto& h : net.head) {
            std::memset(&h, 0, sizeof(h));
            for (int k = 0; k < NetData::n2; k++) {
                h.lin2.weight(k, 0) = 64;        // own material, side to move perspective
                h.lin2.weight(k, 1) = -64;       // opponent material
                h.lin2.bias(k) = 64 * 64;
                for (int j = 2; j < 18; j++) {
                    h.lin2.weight(k, j) = r(-3, 3);
                    h.lin2.weight(k, n1 + j) = r(-3, 3);
                }
                h.lin3.weight(k, k) = 64;
            }
            for (int k = 0; k < NetData::n3; k++) h.lin4.weight(0, k) = 127;
            h.lin4.bias(0) = -NetData::n3 * 127 * 64;
        }
    } else {
        std::cerr << "unknown net " << name << std::endl; return 2;
    }
    std::stringstream ss;
    net.save(ss);
    std::string raw = ss.str();
    std::vector<unsigned char> out(raw.size() + raw.size() / 3 + 1024);
    size_t outLen = out.size();
    int res = Lzma86_Encode(out.data(), &outLen, (const unsigned char*)raw.data(), raw.size(), 1, 1 << 20, SZ_FILTER_NO);
    if (res != 0) { std::cerr << "lzma error " << res << std::endl; return 2; }
    std::ofstream os(argv[1], std::ios::binary);
    os.write((const char*)out.data(), outLen);
    return 0;
}
