// Shared helpers for the verification harnesses: ND-JSON emission of positions and
// moves in the schema of DESIGN.md appendix A, start-position corpus, seeded RNG.
#ifndef HCOMMON_HPP_
#define HCOMMON_HPP_
#include "position.hpp"
#include "moveGen.hpp"
#include "textio.hpp"
#include "random.hpp"
#include "computerPlayer.hpp"
#include <string>
#include <vector>
#include <cstdio>
#include <sstream>

namespace vh {

inline std::string mvJ(const Move& m) {
    char buf[48];
    snprintf(buf, sizeof(buf), "[%d,%d,%d]", m.from().asInt(), m.to().asInt(), m.promoteTo());
    return buf;
}

inline std::string boardJ(const Position& pos) {
    std::string s = "[";
    for (int sq = 0; sq < 64; sq++) {
        if (sq) s += ',';
        s += std::to_string(pos.getPiece(Square(sq)));
    }
    return s + "]";
}

/** "board":[..],"wtm":..,"castle":..,"ep":..,"hmc":..,"full":.. (no braces) */
inline std::string posFieldsJ(const Position& pos) {
    std::string s = "\"board\":" + boardJ(pos);
    s += std::string(",\"wtm\":") + (pos.isWhiteMove() ? "true" : "false");
    s += ",\"castle\":" + std::to_string(pos.getCastleMask());
    s += ",\"ep\":" + std::to_string(pos.getEpSquare().asInt());
    s += ",\"hmc\":" + std::to_string(pos.getHalfMoveClock());
    s += ",\"full\":" + std::to_string(pos.getFullMoveCounter());
    return s;
}

inline std::string hex64(U64 v) {
    char buf[32];
    snprintf(buf, sizeof(buf), "\"%016llx\"", (unsigned long long)v);
    return buf;
}

inline std::string jsonEsc(const std::string& in) {
    std::string o;
    for (char c : in) {
        if (c == '"' || c == '\\') { o += '\\'; o += c; }
        else if ((unsigned char)c < 0x20) { char b[8]; snprintf(b, sizeof(b), "\\u%04x", c); o += b; }
        else o += c;
    }
    return o;
}

/** Raw position fields as chosen by a generator (before any FEN repair). */
struct RawPos {
    int board[64];
    bool wtm;
    int castle;   // texel bit order
    int ep;       // -1 or square
    int hmc, full;
};

inline std::string rawFen(const RawPos& r) {
    static const char* pc = " KQRBNPkqrbnp";
    std::string s;
    for (int y = 7; y >= 0; y--) {
        int e = 0;
        for (int x = 0; x < 8; x++) {
            int p = r.board[y * 8 + x];
            if (p == 0) { e++; continue; }
            if (e) { s += std::to_string(e); e = 0; }
            s += pc[p];
        }
        if (e) s += std::to_string(e);
        if (y) s += '/';
    }
    s += r.wtm ? " w " : " b ";
    std::string c;
    if (r.castle & 2) c += 'K';
    if (r.castle & 1) c += 'Q';
    if (r.castle & 8) c += 'k';
    if (r.castle & 4) c += 'q';
    s += c.empty() ? "-" : c;
    s += ' ';
    if (r.ep < 0) s += '-';
    else { s += char('a' + r.ep % 8); s += char('1' + r.ep / 8); }
    s += ' ' + std::to_string(r.hmc) + ' ' + std::to_string(r.full);
    return s;
}

inline std::string rawFieldsJ(const RawPos& r) {
    std::string s = "\"board\":[";
    for (int i = 0; i < 64; i++) { if (i) s += ','; s += std::to_string(r.board[i]); }
    s += std::string("],\"wtm\":") + (r.wtm ? "true" : "false");
    s += ",\"castle\":" + std::to_string(r.castle) + ",\"ep\":" + std::to_string(r.ep);
    s += ",\"hmc\":" + std::to_string(r.hmc) + ",\"full\":" + std::to_string(r.full);
    return s;
}

inline void legalMoves(Position& pos, MoveList& ml) {
    MoveGen::pseudoLegalMoves(pos, ml);
    MoveGen::removeIllegal(pos, ml);
}

/** Seeded start positions (besides the initial position) used by the random-game drivers. */
inline const std::vector<std::string>& startFens() {
    static const std::vector<std::string> v = {
        TextIO::startPosFEN,
        "r3k2r/p1ppqpb1/bn2pnp1/3PN3/1p2P3/2N2Q1p/PPPBBPPP/R3K2R w KQkq - 0 1",
        "8/2p5/3p4/KP5r/1R3p1k/8/4P1P1/8 w - - 0 1",
        "r3k2r/Pppp1ppp/1b3nbN/nP6/BBP1P3/q4N2/Pp1P2PP/R2Q1RK1 w kq - 0 1",
        "rnbq1k1r/pp1Pbppp/2p5/8/2B5/8/PPP1NnPP/RNBQK2R w KQ - 1 8",
        "r4rk1/1pp1qppp/p1np1n2/2b1p1B1/2B1P1b1/P1NP1N2/1PP1QPPP/R4RK1 w - - 0 10",
        "4k3/P6P/8/8/8/8/p6p/4K3 w - - 0 1",
        "r3k2r/8/8/8/8/8/8/R3K2R w KQkq - 0 1",
        "4k3/pppppppp/8/8/8/8/PPPPPPPP/4K3 w - - 0 1",
        "8/8/1k6/2b5/2pP4/8/5K2/8 b - d3 0 1",
        "8/5bk1/8/2Pp4/8/1K6/8/8 w - d6 0 1",
        "rnbqkbnr/ppp1pppp/8/8/3pP3/8/PPPP1PPP/RNBQKBNR b KQkq e3 0 2",
        "n1n5/PPPk4/8/8/8/8/4Kppp/5N1N b - - 0 1",
        "8/PPP4k/8/8/8/8/4Kppp/8 w - - 0 1",
        "r1bqkb1r/pppp1ppp/2n2n2/4p2Q/2B1P3/8/PPPP1PPP/RNB1K1NR w KQkq - 4 4",
        "2kr3r/ppp2ppp/2n5/2b1p1q1/4P1b1/2NP1N2/PPP2PPP/R1BQ1RK1 w - - 0 10",
        "8/8/8/3k4/8/3K4/4Q3/8 w - - 0 1",
        "8/8/8/3k4/8/3K4/4R3/8 w - - 0 1",
        "4k3/8/8/8/8/8/8/4K2R w K - 0 1",
        "r3k3/8/8/8/8/8/8/4K3 b q - 0 1",
    };
    return v;
}

inline void init() { ComputerPlayer::initEngine(); }

} // namespace vh
#endif
