// h_apply "<fen>" <uci move> ... : prints the FEN after each move (one per line), or "ILLEGAL <move>" and stops.
// Used by drivers that let the engine play a game and need every intermediate position as a root of its own.
#include "hcommon.hpp"
#include <iostream>
using namespace vh;
int main(int argc, char** argv) {
    if (argc < 2) return 2;
    vh::init();
    Position pos = TextIO::readFEN(argv[1]);
    for (int i = 2; i < argc; i++) {
        Move m = TextIO::uciStringToMove(argv[i]);
        MoveList ml; legalMoves(pos, ml);
        bool ok = false;
        for (int k = 0; k < ml.size; k++) if (ml[k] == m) ok = true;
        if (!ok) { std::cout << "ILLEGAL " << argv[i] << "\n"; return 1; }
        UndoInfo ui; pos.makeMove(m, ui);
        Position f(pos); TextIO::fixupEPSquare(f);
        std::cout << TextIO::toFEN(f) << "\n";
    }
    return 0;
}
