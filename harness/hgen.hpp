// Synthetic placement generator shared by the rule-book harnesses (C01, C02, C15, C07):
// sparse/medium/dense random placements biased towards pins, double checks, en-passant
// pins, castling through attacked squares and promotions (DESIGN.md 5, C01 inputs).
#ifndef HGEN_HPP_
#define HGEN_HPP_
#include "hcommon.hpp"
#include <algorithm>
namespace vh {
// ---------------------------------------------------------------- synthetic placements

struct Gen {
    Random& rnd;
    RawPos r;
    int cnt[13];
    explicit Gen(Random& rnd) : rnd(rnd) {}
    int ri(int n) { return rnd.nextInt(n); }
    bool chance(int pct) { return ri(100) < pct; }
    static bool onB(int x, int y) { return x >= 0 && x < 8 && y >= 0 && y < 8; }
    int sideCount(bool w) const { int n = 0; for (int p = (w ? 1 : 7); p <= (w ? 6 : 12); p++) n += cnt[p]; return n; }
    bool promoOk(bool w, int addPiece) const {
        int c[13];
        for (int i = 0; i < 13; i++) c[i] = cnt[i];
        c[addPiece]++;
        int o = w ? 0 : 6;
        auto ex = [&](int k, int base) { return std::max(0, c[o + k] - base); };
        int tot = 0;
        for (int k = 1; k <= 6; k++) tot += c[o + k];
        return tot <= 16 && c[o + 6] + ex(2, 1) + ex(3, 2) + ex(4, 2) + ex(5, 2) <= 8;
    }
    bool put(int sq, int p, bool force = false) {
        if (sq < 0 || sq > 63 || r.board[sq] != 0) return false;
        bool w = p <= 6;
        if (!force) {
            if ((p == 6 || p == 12) && (sq / 8 == 0 || sq / 8 == 7)) return false;
            if (!promoOk(w, p)) return false;
        }
        r.board[sq] = p;
        cnt[p]++;
        return true;
    }
    int kingSq(bool w) const { for (int i = 0; i < 64; i++) if (r.board[i] == (w ? 1 : 7)) return i; return -1; }

    void pinTheme(bool victimWhite) {
        int k = kingSq(victimWhite);
        static const int dx[8] = {1, -1, 0, 0, 1, 1, -1, -1}, dy[8] = {0, 0, 1, -1, 1, -1, 1, -1};
        int d = ri(8);
        int x = k % 8, y = k / 8;
        int len = 0;
        while (onB(x + dx[d] * (len + 1), y + dy[d] * (len + 1))) len++;
        if (len < 2) return;
        int d1 = 1 + ri(len - 1), d2 = d1 + 1 + ri(len - d1);
        int o = victimWhite ? 0 : 6, e = victimWhite ? 6 : 0;
        int own = o + 2 + ri(5);                    // any non-king own piece
        int slider = e + (d < 4 ? (chance(50) ? 3 : 2) : (chance(50) ? 4 : 2));
        put((y + dy[d] * d1) * 8 + x + dx[d] * d1, own);
        put((y + dy[d] * d2) * 8 + x + dx[d] * d2, slider);
    }
    void checkTheme(bool victimWhite) {
        int k = kingSq(victimWhite), x = k % 8, y = k / 8, e = victimWhite ? 6 : 0;
        static const int kx[8] = {1, 2, -1, -2, 1, 2, -1, -2}, ky[8] = {2, 1, 2, 1, -2, -1, -2, -1};
        if (chance(60)) { int i = ri(8); if (onB(x + kx[i], y + ky[i])) put((y + ky[i]) * 8 + x + kx[i], e + 5); }
        if (chance(70)) {
            static const int dx[8] = {1, -1, 0, 0, 1, 1, -1, -1}, dy[8] = {0, 0, 1, -1, 1, -1, 1, -1};
            int d = ri(8), n = 1 + ri(6);
            if (onB(x + dx[d] * n, y + dy[d] * n))
                put((y + dy[d] * n) * 8 + x + dx[d] * n, e + (d < 4 ? (chance(50) ? 3 : 2) : (chance(50) ? 4 : 2)));
        }
        if (chance(30)) { // pawn check
            int py = victimWhite ? y + 1 : y - 1, px = x + (chance(50) ? 1 : -1);
            if (onB(px, py)) put(py * 8 + px, e + 6);
        }
    }
    void epTheme() {
        bool w = r.wtm;              // side to move captures
        int x = ri(8), y = w ? 4 : 3;
        if (!put(y * 8 + x, w ? 12 : 6)) return;       // the just-pushed enemy pawn
        int ax = x + (chance(50) ? 1 : -1);
        if (onB(ax, y)) put(y * 8 + ax, w ? 6 : 12);
        if (chance(40)) { int bx = 2 * x - ax; if (onB(bx, y)) put(y * 8 + bx, w ? 6 : 12); }
        r.ep = (w ? 5 : 2) * 8 + x;
        if (chance(50)) {            // horizontal / diagonal pin through the pawns
            int k = kingSq(w);
            if (k >= 0 && chance(60)) {  // move own king onto the rank
                int kx = ri(8);
                if (r.board[y * 8 + kx] == 0) { r.board[k] = 0; r.board[y * 8 + kx] = w ? 1 : 7; }
            }
            int rx = ri(8);
            put(y * 8 + rx, (w ? 6 : 0) + (chance(50) ? 3 : 2));
        }
        if (chance(30)) { // diagonal slider aimed through the captured pawn / ep square
            int sq = ri(64);
            put(sq, (w ? 6 : 0) + (chance(50) ? 4 : 2));
        }
    }
    void castleTheme() {
        for (int side = 0; side < 2; side++) {
            bool w = side == 0;
            if (!chance(70)) continue;
            int k = kingSq(w), home = w ? 4 : 60;
            if (r.board[home] != 0 && k != home) continue;
            r.board[k] = 0; r.board[home] = w ? 1 : 7;
            if (chance(80)) { if (put(home + 3, w ? 3 : 9)) r.castle |= w ? 2 : 8; }
            if (chance(80)) { if (put(home - 4, w ? 3 : 9)) r.castle |= w ? 1 : 4; }
            // attackers aimed at the king path
            int n = ri(3);
            for (int i = 0; i < n; i++) {
                int tx = 1 + ri(6), ty = w ? 1 + ri(6) : ri(7);
                int e = w ? 6 : 0;
                int p = e + 2 + ri(4);
                put(ty * 8 + tx, p);
            }
            if (chance(25)) { int px = 1 + ri(6); put((w ? 1 : 6) * 8 + px, w ? 12 : 6); } // pawn attacking back rank squares
        }
    }
    void promoTheme() {
        bool w = r.wtm;
        int n = 1 + ri(3);
        for (int i = 0; i < n; i++) {
            int x = ri(8), y = w ? 6 : 1;
            put(y * 8 + x, w ? 6 : 12);
            int ty = w ? 7 : 0;
            if (chance(50)) { int cx = x + (chance(50) ? 1 : -1); if (onB(cx, ty)) put(ty * 8 + cx, (w ? 6 : 0) + 2 + ri(4)); }
            if (chance(30)) put(ty * 8 + x, (w ? 6 : 0) + 2 + ri(4));
        }
        if (chance(50)) { // enemy king on the promotion rank
            int k = kingSq(!w), ty = w ? 7 : 0, kx = ri(8);
            if (r.board[ty * 8 + kx] == 0) { r.board[k] = 0; r.board[ty * 8 + kx] = w ? 7 : 1; }
        }
    }

    RawPos gen() {
        for (int i = 0; i < 64; i++) r.board[i] = 0;
        for (int i = 0; i < 13; i++) cnt[i] = 0;
        r.wtm = chance(50);
        r.castle = 0;
        r.ep = -1;
        r.hmc = chance(20) ? 90 + ri(20) : ri(60);
        r.full = 1 + ri(120);
        int wk = ri(64), bk;
        do { bk = ri(64); } while (bk == wk);
        r.board[wk] = 1; cnt[1]++;
        r.board[bk] = 7; cnt[7]++;
        int theme = ri(8);
        if (theme == 0 || theme == 6) pinTheme(r.wtm);
        if (theme == 1 || theme == 6) checkTheme(r.wtm);
        if (theme == 2) { epTheme(); if (chance(40)) pinTheme(r.wtm); }
        if (theme == 3) castleTheme();
        if (theme == 4) { promoTheme(); if (chance(30)) pinTheme(r.wtm); }
        if (theme == 5) { pinTheme(r.wtm); pinTheme(r.wtm); if (chance(50)) pinTheme(!r.wtm); }
        int style = ri(3);
        int target = style == 0 ? 2 + ri(6) : style == 1 ? 8 + ri(12) : 20 + ri(13);
        int tries = 0, placed = 0;
        for (int i = 0; i < 64; i++) if (r.board[i]) placed++;
        while (placed < target && tries++ < 200) {
            bool w = chance(50);
            int kind = chance(45) ? 6 : 2 + ri(4);
            if (put(ri(64), (w ? 0 : 6) + kind)) placed++;
        }
        if (chance(2)) { int sq = chance(50) ? ri(8) : 56 + ri(8); put(sq, chance(50) ? 6 : 12, true); } // pawn on back rank: must be rejected
        if (chance(10)) r.castle |= 1 << ri(4);                                  // possibly bogus flag: readFEN repairs
        if (r.ep < 0 && chance(5)) r.ep = (r.wtm ? 40 : 16) + ri(8);             // possibly bogus ep: repaired
        return r;
    }
};


} // namespace vh
#endif
