CONSTANTS DIAG = TRUE
  Classes = {"KQK", "KRK"}
  DropAt = 4
  ResetOnAbort = TRUE
  ClearRestoresSize = TRUE
INIT TInit
NEXT TNext
CHECK_DEADLOCK FALSE
POSTCONDITION Accepted
