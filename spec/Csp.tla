--------------------------------- MODULE Csp ---------------------------------
(***************************************************************************)
(* C20: rank-constraint systems.  A system is                              *)
(*   vars : sequence of [lo, hi, par]   par: 0 = any, 1 = even, 2 = odd,   *)
(*                                           3 = both demanded (empty)      *)
(*   cons : sequence of <<v1, v2, c>>   meaning  x[v1] <= x[v2] + c         *)
(* (variables are numbered from 1).                                        *)
(* Satisfiability is defined twice:                                        *)
(*   SatDecl  declaratively, by existence of an assignment;                *)
(*   SatAlg   by case split over the parity of unrestricted variables,     *)
(*            halving (x = 2y + p) and bounds propagation to a fixed point *)
(*            (exact for pure difference constraints over intervals).      *)
(* MC_Csp checks SatDecl = SatAlg on all systems of a small bound; traces  *)
(* use SatAlg (and SatDecl too whenever the assignment space is small).    *)
(***************************************************************************)
EXTENDS Integers, Sequences, FiniteSets, TLC

ParOK(x, par) == IF par = 0 THEN TRUE ELSE IF par = 1 THEN x % 2 = 0 ELSE IF par = 2 THEN x % 2 = 1 ELSE FALSE
Dom(v) == { x \in v.lo..v.hi : ParOK(x, v.par) }
Satisfies(sys, a) ==
   /\ \A i \in 1..Len(sys.vars) : a[i] \in Dom(sys.vars[i])
   /\ \A k \in 1..Len(sys.cons) : a[sys.cons[k][1]] <= a[sys.cons[k][2]] + sys.cons[k][3]

\* size of the assignment space, saturating at cap (TLC integers are 32 bit)
RECURSIVE SpaceSizeCapped(_,_,_,_)
SpaceSizeCapped(vars, i, acc, cap) ==
   IF i > Len(vars) \/ acc > cap \/ acc = 0 THEN acc
   ELSE SpaceSizeCapped(vars, i + 1, acc * Cardinality(Dom(vars[i])), cap)
SpaceSize(vars, i) == SpaceSizeCapped(vars, i, 1, 100000)

\* ---- declarative definition (recursive enumeration with the constraints checked at the end)
RECURSIVE ExistsFrom(_,_,_)
ExistsFrom(sys, i, a) ==
   IF i > Len(sys.vars) THEN \A k \in 1..Len(sys.cons) : a[sys.cons[k][1]] <= a[sys.cons[k][2]] + sys.cons[k][3]
   ELSE \E x \in Dom(sys.vars[i]) : ExistsFrom(sys, i + 1, Append(a, x))
SatDecl(sys) == ExistsFrom(sys, 1, <<>>)

\* ---- algorithmic definition
FloorDiv2(z) == IF z >= 0 THEN z \div 2 ELSE -((-z + 1) \div 2)
CeilDiv2(z) == -FloorDiv2(-z)
\* bounds of y for x = 2y + p with x in lo..hi
YLo(lo, p) == CeilDiv2(lo - p)
YHi(hi, p) == FloorDiv2(hi - p)
\* one round of bounds propagation over all constraints  y1 <= y2 + d
RECURSIVE Propagate(_,_,_,_,_)
Propagate(L, H, cons, k, changed) ==
   IF k > Len(cons) THEN <<L, H, changed>>
   ELSE LET v1 == cons[k][1]  v2 == cons[k][2]  d == cons[k][3]
            nl2 == IF L[v1] - d > L[v2] THEN L[v1] - d ELSE L[v2]        \* y2 >= y1 - d
            nh1 == IF H[v2] + d < H[v1] THEN H[v2] + d ELSE H[v1]        \* y1 <= y2 + d
            L2 == [L EXCEPT ![v2] = nl2]
            H2 == [H EXCEPT ![v1] = nh1]
        IN Propagate(L2, H2, cons, k + 1, changed \/ nl2 # L[v2] \/ nh1 # H[v1])
RECURSIVE Fixpoint(_,_,_,_)
Fixpoint(L, H, cons, fuel) ==
   IF \E i \in 1..Len(L) : L[i] > H[i] THEN FALSE
   ELSE LET r == Propagate(L, H, cons, 1, FALSE) IN
        IF ~r[3] THEN TRUE
        ELSE IF fuel = 0 THEN FALSE                     \* domains are finite: fuel only guards the recursion
        ELSE Fixpoint(r[1], r[2], cons, fuel - 1)
\* with parity p[i] fixed for every variable
SatWithParity(sys, p) ==
   LET n == Len(sys.vars)
       L == [i \in 1..n |-> YLo(sys.vars[i].lo, p[i])]
       H == [i \in 1..n |-> YHi(sys.vars[i].hi, p[i])]
       cons == [k \in 1..Len(sys.cons) |->
                  LET c == sys.cons[k] IN <<c[1], c[2], FloorDiv2(c[3] + p[c[2]] - p[c[1]])>>]
   IN Fixpoint(L, H, cons, 5000)
ParChoices(v) == IF v.par = 0 THEN {0, 1} ELSE IF v.par = 1 THEN {0} ELSE IF v.par = 2 THEN {1} ELSE {}
RECURSIVE SatSplit(_,_,_)
SatSplit(sys, i, p) == IF i > Len(sys.vars) THEN SatWithParity(sys, p)
                       ELSE \E b \in ParChoices(sys.vars[i]) : SatSplit(sys, i + 1, Append(p, b))
\* relaxation without parity (bounds first tightened to the nearest value of the demanded parity): necessary for satisfiability,
\* and sufficient when no variable is parity-restricted
TightLo(v) == IF v.par \in {1, 2} /\ ~ParOK(v.lo, v.par) THEN v.lo + 1 ELSE v.lo
TightHi(v) == IF v.par \in {1, 2} /\ ~ParOK(v.hi, v.par) THEN v.hi - 1 ELSE v.hi
Relaxed(sys) ==
   LET n == Len(sys.vars) IN
   /\ \A i \in 1..n : sys.vars[i].par # 3
   /\ Fixpoint([i \in 1..n |-> TightLo(sys.vars[i])], [i \in 1..n |-> TightHi(sys.vars[i])], sys.cons, 5000)
SatAlg(sys) ==
   IF ~Relaxed(sys) THEN FALSE
   ELSE IF \A i \in 1..Len(sys.vars) : sys.vars[i].par = 0 THEN TRUE
   ELSE SatSplit(sys, 1, <<>>)
=============================================================================
