-------------------------------- MODULE Mate --------------------------------
(***************************************************************************)
(* C04: certificates for "the side to move can force checkmate within n of *)
(* its own moves" and for its negation, checked against the rule book.     *)
(* Draw claims (repetition, 50 moves) are not moves: a forced mate is a    *)
(* property of the move tree alone.                                        *)
(*   proof tree       t = <<m, replies>>, m = <<from,to,promo>>,           *)
(*                    replies = sequence of <<r, subtree>> covering every  *)
(*                    legal reply (empty iff m mates)                      *)
(*   refutation tree  u = sequence of <<m, r, subtree>> covering every     *)
(*                    legal attacker move m with a defender reply r        *)
(*                    (r = <<-1,-1,0>> when m stalemates or n = 1)          *)
(***************************************************************************)
EXTENDS Chess

RECURSIVE ProofOK(_,_,_)
ProofOK(p, t, n) ==
   /\ n >= 1
   /\ LET m == MvOfSeq(t[1])  reps == t[2] IN
      /\ IsLegalMove(p, m)
      /\ LET q == Play(p, m)  L == Legal(q) IN
         IF L = {} THEN InCheck(q) /\ Len(reps) = 0                 \* m mates (stalemate is not a win)
         ELSE /\ n >= 2
              /\ { MvOfSeq(reps[i][1]) : i \in 1..Len(reps) } = L    \* every defence is answered
              /\ \A i \in 1..Len(reps) : ProofOK(Play(q, MvOfSeq(reps[i][1])), reps[i][2], n - 1)

MateIn1Moves(p) == { m \in Legal(p) : IsMate(Play(p, m)) }

RECURSIVE RefutedOK(_,_,_)
\* the side to move in p can NOT force mate within n moves
RefutedOK(p, u, n) ==
   IF n <= 0 THEN TRUE
   ELSE IF n = 1 THEN MateIn1Moves(p) = {}
   ELSE /\ { MvOfSeq(u[i][1]) : i \in 1..Len(u) } = Legal(p)
        /\ \A i \in 1..Len(u) :
              LET m == MvOfSeq(u[i][1])  q == Play(p, m) IN
              IF Legal(q) = {} THEN ~InCheck(q)                      \* stalemate: no mate this way
              ELSE LET r == MvOfSeq(u[i][2]) IN
                   /\ IsLegalMove(q, r)
                   /\ RefutedOK(Play(q, r), u[i][3], n - 1)

\* "lost in n": whatever the side to move plays, the opponent mates within n moves (trees per move)
LostOK(p, ts, n) ==
   /\ Legal(p) # {}
   /\ { MvOfSeq(ts[i][1]) : i \in 1..Len(ts) } = Legal(p)
   /\ \A i \in 1..Len(ts) : ProofOK(Play(p, MvOfSeq(ts[i][1])), ts[i][2], n)
=============================================================================
