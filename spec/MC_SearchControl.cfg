CONSTANTS
  Helpers <- H2chain
  Par <- P2chain
  Script <- S_goStopQuit
  MaxJobs = 2
SPECIFICATION Spec
INVARIANTS OptionsInEffectAtGo AtMostOneBest AckNonNeg Quiescent ResultFresh NoDeadlock
CHECK_DEADLOCK FALSE
