------------------------------- MODULE Tr_Game -------------------------------
(***************************************************************************)
(* C11 trace validation.                                                   *)
(*  (a) engine: DrawRoot (start position + history) followed by DrawInfo   *)
(*      lines (one per reported root move with its own exact score): a     *)
(*      move creating a third occurrence or completing the 50-move count   *)
(*      must be scored cp 0, or mate 1 if it mates.                         *)
(*  (b) console game: GameNew / GameCmd lines replayed on the ChessGame    *)
(*      state machine; accepted flag, game state, draw-offer flag and      *)
(*      position must agree after every command.                           *)
(***************************************************************************)
EXTENDS ChessGame, Json, IOUtils
CONSTANT DIAG
VARIABLES l, g, rootPs   \* rootPs = <<root position, sequence of FideKeys of the history incl. root>>
Tr == ndJsonDeserialize(IOEnv.TRACE)
Chk(name, cond, info) == IF cond THEN TRUE ELSE (DIAG /\ PrintT(<<"MISMATCH", name, l, info>>))
Ev(e) == l <= Len(Tr) /\ Tr[l].e = e /\ l' = l + 1

MvSeq(s) == [i \in 1..Len(s) |-> MvOfSeq(s[i])]
SameFide(r, p) == LET q == PosOfRec(r) IN
   q.b = p.b /\ q.w = p.w /\ q.c = p.c /\ q.h = p.h /\ q.f = p.f /\ FideEp(q) = FideEp(p)

TMeta == Ev("Meta") /\ UNCHANGED <<g, rootPs>>

(* ---------------- engine part ---------------- *)
TDrawRoot ==
   /\ Ev("DrawRoot")
   /\ LET r == Tr[l].start
          p0 == FenPosition(BoardOfSeq(r.board), r.wtm, r.castle, r.ep, r.hmc, r.full)
          ps == PositionsFrom(p0, MvSeq(Tr[l].hist), 1)
      IN rootPs' = <<ps[Len(ps)], [i \in 1..Len(ps) |-> FideKey(ps[i])]>>
   /\ UNCHANGED g

TDrawInfo ==
   /\ Ev("DrawInfo")
   /\ UNCHANGED <<g, rootPs>>
   /\ LET m == MvOfSeq(Tr[l].m)  root == rootPs[1]  keys == rootPs[2] IN
      (IsLegalMove(root, m) /\ Tr[l].bound = "") =>
         LET q == Play(root, m)
             third == Cardinality({ i \in 1..Len(keys) : keys[i] = FideKey(q) }) >= 2    \* ThirdOccurrenceAfter
             fifty == q.h >= 100                                                         \* FiftyAfter
         IN (third \/ fifty) =>
                    IF IsMate(q) THEN Chk("MateStillCounts", Tr[l].kind = "mate" /\ Tr[l].val = 1, Tr[l].line)
                    ELSE Chk(IF third THEN "RepetitionIsDraw" ELSE "FiftyMoveIsDraw",
                             Tr[l].kind = "cp" /\ Tr[l].val = 0, <<Tr[l].go, Tr[l].line>>)

(* ---------------- console game part ---------------- *)
TGameNew == Ev("GameNew") /\ g' = NewGame(InitPos) /\ UNCHANGED rootPs

Apply(r) ==    \* <<new game state, expected return value>>
   LET k == r.kind IN
   IF k = "setpos" THEN <<NewGame(PosOfRec(r.raw)), TRUE>>
   ELSE IF k = "new" THEN <<NewGame(InitPos), TRUE>>
   ELSE IF k = "move" THEN CmdMove(g, MvOfSeq(r.m))
   ELSE IF k = "badmove" THEN <<g, FALSE>>
   ELSE IF k = "undo" THEN <<CmdUndo(g), TRUE>>
   ELSE IF k = "redo" THEN <<CmdRedo(g), TRUE>>
   ELSE IF k = "resign" THEN <<CmdResign(g), TRUE>>
   ELSE IF k = "accept" THEN <<CmdAccept(g), TRUE>>
   ELSE IF k = "claim" THEN <<CmdClaim(g, r.rep, r.hasM, MvOfSeq(r.m)), TRUE>>
   ELSE <<CmdOffer(g, MvOfSeq(r.m)), TRUE>>

TGameCmd ==
   /\ Ev("GameCmd")
   /\ UNCHANGED rootPs
   /\ LET res == Apply(Tr[l])  g2 == res[1] IN
      /\ g' = g2
      /\ Chk("ReturnValue", Tr[l].ok = res[2], <<Tr[l].kind, Tr[l].ok>>)
      /\ Chk("GameState", Tr[l].state = GameStateOf(g2), <<Tr[l].kind, "impl", Tr[l].state, "spec", GameStateOf(g2)>>)
      /\ Chk("DrawOffer", Tr[l].offer = HaveDrawOffer(g2), <<Tr[l].kind, Tr[l].offer>>)
      /\ Chk("Position", SameFide(Tr[l], CurPos(g2)), <<Tr[l].kind, Tr[l].ep, CurPos(g2).e>>)
      /\ Chk("HistoryForTheEnginePlayer", Tr[l].histLen = HistLen(g2) /\ Tr[l].histFirstClock = HistFirstClock(g2),
             <<Tr[l].kind, "impl", Tr[l].histLen, Tr[l].histFirstClock, "spec", HistLen(g2), HistFirstClock(g2)>>)

TInit == l = 1 /\ g = NewGame(InitPos) /\ rootPs = <<InitPos, <<>>>>
TNext == TMeta \/ TDrawRoot \/ TDrawInfo \/ TGameNew \/ TGameCmd
Accepted == TLCGet("stats").diameter - 1 = Len(Tr) \/ (PrintT(<<"REJECTED_AT", TLCGet("stats").diameter>>) /\ FALSE)
=============================================================================
