CONSTANTS
 Nodes <- DiamondNodes
 Values <- DiamondValues
 PendNodes <- DiamondPend
SPECIFICATION Spec
INVARIANT TypeOK
CHECK_DEADLOCK FALSE
