CONSTANTS
 N = 4
 KidsOf <- ChainKids
 DepthOf <- ChainDepth
 ScoresOf <- ChainScores
 CoveredOf <- ChainCovered
 PendNodes <- ChainPend
 QueueSelf = TRUE
 OldBlackFromWhite = FALSE
 DepthCost = 100
 OwnCost = 200
 OtherCost = 50
SPECIFICATION Spec
INVARIANT AtFixedPoint
CHECK_DEADLOCK FALSE
