CONSTANTS
 Nodes <- ChainNodes
 Values <- ChainValues
 PendNodes <- ChainPend
SPECIFICATION Spec
INVARIANT TypeOK
CHECK_DEADLOCK FALSE
