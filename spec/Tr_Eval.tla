------------------------------- MODULE Tr_Eval -------------------------------
(***************************************************************************)
(* C07: the static evaluation is a function of (position, contempt) with   *)
(* the symmetries of Chess.tla.  The numbers are computed by the           *)
(* implementation; the specification decides which evaluations must agree: *)
(*   same    equal position (all fields incl. half-move clock) and equal   *)
(*           contempt, whatever history / cache state / build variant      *)
(*   flip    b = FlipColour(a), contempt negated                           *)
(*   mirror  no castling rights, b = MirrorX(a)                            *)
(***************************************************************************)
EXTENDS Chess, Json, IOUtils
CONSTANT DIAG
VARIABLE l
Tr == ndJsonDeserialize(IOEnv.TRACE)
Chk(name, cond, info) == IF cond THEN TRUE ELSE (DIAG /\ PrintT(<<"MISMATCH", name, l, info>>))
Ev(e) == l <= Len(Tr) /\ Tr[l].e = e /\ l' = l + 1
SamePos(p, q) == p.b = q.b /\ p.w = q.w /\ p.c = q.c /\ p.e = q.e /\ p.h = q.h

TMeta == Ev("Meta")
TPair ==
   /\ Ev("EvalPair")
   /\ LET a == Tr[l].a  b == Tr[l].b  pa == PosOfRec(a)  pb == PosOfRec(b)  rel == Tr[l].rel IN
      IF rel = "same" THEN
         /\ Chk("PairIsSamePosition", SamePos(pa, pb) /\ a.contempt = b.contempt, <<a.how, b.how>>)      \* harness sanity
         /\ Chk("EvalIsFunctionOfPosition", a.val = b.val, <<a.how, a.val, b.how, b.val, a.contempt>>)
      ELSE IF rel = "flip" THEN
         /\ Chk("PairIsFlip", SamePos(FlipColour(pa), pb) /\ b.contempt = -a.contempt, <<a.how, b.how>>)
         /\ Chk("EvalColourSymmetric", a.val = b.val, <<a.val, b.val, a.contempt>>)
      ELSE
         /\ Chk("PairIsMirror", pa.c = 0 /\ SamePos(MirrorX(pa), pb) /\ a.contempt = b.contempt, <<a.how, b.how>>)
         /\ Chk("EvalMirrorSymmetric", a.val = b.val, <<a.val, b.val>>)
TInit == l = 1
TNext == TMeta \/ TPair
Accepted == TLCGet("stats").diameter - 1 = Len(Tr) \/ (PrintT(<<"REJECTED_AT", TLCGet("stats").diameter>>) /\ FALSE)
=============================================================================
