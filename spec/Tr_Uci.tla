-------------------------------- MODULE Tr_Uci --------------------------------
(***************************************************************************)
(* C05 monitor over what an operator sees: the commands written to stdin   *)
(* (in order), the lines read from stdout (in order, classified by the     *)
(* driver's grammar), and the exit status.  The relative order of inputs   *)
(* and outputs is not assumed (that part of the contract is judged on the  *)
(* hook traces by Tr_Control.tla).                                         *)
(*   In{cmd0, valid}   Out{cls}   Exit{rc}   Undisturbed{a, b}             *)
(*   Limited{cmds, answered, inSet}                                        *)
(***************************************************************************)
EXTENDS Integers, Sequences, TLC, Json, IOUtils
CONSTANT DIAG
VARIABLES l, nGo, nReady, nBest, nReadyok, malformed
Tr == ndJsonDeserialize(IOEnv.TRACE)
Chk(name, cond, info) == IF cond THEN TRUE ELSE (DIAG /\ PrintT(<<"MISMATCH", name, l, info>>))
Ev(e) == l <= Len(Tr) /\ Tr[l].e = e /\ l' = l + 1
TReset == (Ev("Reset") \/ Ev("Meta")) /\ nGo' = 0 /\ nReady' = 0 /\ nBest' = 0 /\ nReadyok' = 0 /\ malformed' = 0
TIn == /\ Ev("In")
       /\ nGo' = nGo + (IF Tr[l].cmd0 = "go" THEN 1 ELSE 0)
       /\ nReady' = nReady + (IF Tr[l].cmd0 = "isready" THEN 1 ELSE 0)
       /\ UNCHANGED <<nBest, nReadyok, malformed>>
TOut == /\ Ev("Out")
        /\ Chk("WellFormedOutputLine", Tr[l].cls # "malformed", Tr[l].line)
        /\ nBest' = nBest + (IF Tr[l].cls = "bestmove" THEN 1 ELSE 0)
        /\ nReadyok' = nReadyok + (IF Tr[l].cls = "readyok" THEN 1 ELSE 0)
        /\ malformed' = malformed + (IF Tr[l].cls = "malformed" THEN 1 ELSE 0)
        /\ Chk("NeverMoreBestmovesThanGo", nBest' <= nGo, <<nBest', nGo>>)        \* all inputs of the run precede the Out events in the file
        /\ Chk("NeverMoreReadyokThanIsready", nReadyok' <= nReady, <<nReadyok', nReady>>)
        /\ UNCHANGED <<nGo, nReady>>
TExit == /\ Ev("Exit")
         /\ Chk("ExitStatusZero", Tr[l].rc = 0, <<Tr[l].rc, Tr[l].script>>)
         /\ Chk("NoSanitizerOrStderrReport", Tr[l].stderrClean, Tr[l].script)
         /\ Chk("OneBestmovePerGo", nBest = nGo, <<nBest, nGo, Tr[l].script>>)
         /\ Chk("OneReadyokPerIsready", nReadyok = nReady, <<nReadyok, nReady, Tr[l].script>>)
         /\ UNCHANGED <<nGo, nReady, nBest, nReadyok, malformed>>
TUndisturbed == /\ Ev("Undisturbed")
                /\ Chk("OptionChangeDoesNotDisturbRunningSearch", Tr[l].a = Tr[l].b, <<Tr[l].cmds, Tr[l].a, Tr[l].b>>)
                /\ Chk("OptionChangeTakesEffectAfterwards", Tr[l].effect, Tr[l].cmds)
                /\ UNCHANGED <<nGo, nReady, nBest, nReadyok, malformed>>
\* a search with a limit of its own answers without 'stop', wherever the limit stands among the sub-commands of 'go'
TLimited == /\ Ev("Limited")
            /\ Chk("LimitedGoAnswersByItself", Tr[l].answered, Tr[l].cmds)
            /\ Chk("AnswerAmongSearchmoves", Tr[l].inSet, <<Tr[l].cmds, Tr[l].best>>)
            /\ UNCHANGED <<nGo, nReady, nBest, nReadyok, malformed>>
TInit == l = 1 /\ nGo = 0 /\ nReady = 0 /\ nBest = 0 /\ nReadyok = 0 /\ malformed = 0
TNext == TReset \/ TIn \/ TOut \/ TExit \/ TUndisturbed \/ TLimited
Accepted == TLCGet("stats").diameter - 1 = Len(Tr) \/ (PrintT(<<"REJECTED_AT", TLCGet("stats").diameter>>) /\ FALSE)
=============================================================================
