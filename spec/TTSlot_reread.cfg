CONSTANTS Writers = {w1, w2}
 Keys = {k1, k2}
 Datas = {d1, d2}
 XorEncoding = TRUE
 MaxStores = 3
 RereadData = TRUE
SPECIFICATION Spec
INVARIANT HitIsAUnit
CHECK_DEADLOCK FALSE
