------------------------------- MODULE MC_Csp -------------------------------
(* Exhaustive cross-validation of the two definitions of satisfiability on all systems of a small bound. *)
EXTENDS Csp
CONSTANTS Lo, Hi
VARIABLE sys
VarSet == { [lo |-> a, hi |-> b, par |-> p] : a \in Lo..Hi, b \in Lo..Hi, p \in 0..2 }
ConSet(n) == { <<i, j, c>> : i \in 1..n, j \in 1..n, c \in -2..2 }
Systems == { [vars |-> <<v1, v2>>, cons |-> cs] : v1 \in {v \in VarSet : v.lo = Lo \/ v.hi = Hi \/ v.par = 2}, v2 \in VarSet,
                                                    cs \in { <<>> } \cup { <<c1>> : c1 \in ConSet(2) } \cup { <<c1, c2>> : c1 \in ConSet(2), c2 \in { <<2, 1, d>> : d \in -2..2 } } }
Init == sys \in Systems
Next == UNCHANGED sys
Agree == SatDecl(sys) = SatAlg(sys)
LoNeg == -1        \* TLC configuration files cannot contain negative numbers: substituted for Lo by MC_Csp.cfg
=============================================================================
