------------------------------- MODULE SearchControl -------------------------------
(***************************************************************************)
(* C10/C05 design model: the thread controller of texel, one action per    *)
(* critical section / notifier operation / mailbox poll.                   *)
(*   P   protocol thread (UCIProtocol::mainLoop -> EngineControl)          *)
(*   E   engine thread (EngineMainThread::mainLoop/doSearch, searcher 0)   *)
(*   Helpers  WorkerThread tree given by Par (child -> parent)             *)
(* Variables mirror the code: notified (sticky Notifier flags), q (one     *)
(* mailbox per Communicator, parent->child and child->parent commands),    *)
(* ackSelf/ackKids/quitKids (stopAckWaitSelf/Children, quitAckWaitChildren)*)
(* wJob/wHasRes (WorkerThread::jobId/hasResult), search/quitFlag/pending/  *)
(* optsDone (EngineMainThread), ponder/infinite/stopReq (EngineControl ->  *)
(* Search limits), ghost sid and out (bestmoves per search).               *)
(* The search itself is abstract: between polls it may continue, finish    *)
(* the current job, or finish the whole search.  Script is P's command     *)
(* list.  Trace-level binding to the code is in Tr_Control.tla, which uses *)
(* the same mailbox / counter transition rules on recorded events.         *)
(***************************************************************************)
EXTENDS Integers, Sequences, FiniteSets, TLC
CONSTANTS Helpers, Par, Script, MaxJobs
\* Par: [Helpers -> Helpers \cup {"E"}]   Script: sequence of commands
Comm == Helpers \cup {"E"}
Kids(c) == {h \in Helpers : Par[h] = c}

VARIABLES notified, q, ackSelf, ackKids, quitKids,
          wPc, wJob, wMyJob, wHasRes,
          ePc, search, quitFlag, pending, optsDone, ponder, infinite, stopReq, mainJob, sid, jobsDone, waitForStop,
          pPc, pIdx, everSearched,
          out, readyoks,
          sent, applied, taking     \* options: handed over by the protocol thread / in effect / in the engine thread's hand (taken, not yet applied)
ov == <<sent, applied, taking>>
\* Defect switch (overridden in MC_SearchControl_optsdefect.cfg): the options barrier opens as soon as the engine thread has TAKEN the
\* pending batch (pendingOptions.empty()) instead of when it has applied everything (optionsSetFinished).  Must be refuted.
BarrierOnTaken == FALSE
OptsBarrierOpen == IF BarrierOnTaken THEN pending = 0 ELSE optsDone
vars == <<notified, q, ackSelf, ackKids, quitKids, wPc, wJob, wMyJob, wHasRes,
          ePc, search, quitFlag, pending, optsDone, ponder, infinite, stopReq, mainJob, sid, jobsDone, waitForStop,
          pPc, pIdx, everSearched, out, readyoks, sent, applied, taking>>

Cmd(t, j, s) == [t |-> t, job |-> j, sid |-> s]
Purge(s) == SelectSeq(s, LAMBDA c : c.t \notin {"START","STOP","RESULT"})
\* push command c into every kid mailbox of comm x (with optional purge) and notify them
PushKids(x, c, purge) ==
   /\ q' = [y \in Comm |-> IF y \in Kids(x) THEN Append(IF purge THEN Purge(q[y]) ELSE q[y], c) ELSE q[y]]
   /\ notified' = [y \in Comm |-> IF y \in Kids(x) THEN TRUE ELSE notified[y]]

Init ==
  /\ notified = [c \in Comm |-> FALSE] /\ q = [c \in Comm |-> <<>>]
  /\ ackSelf = [c \in Comm |-> FALSE] /\ ackKids = [c \in Comm |-> 0] /\ quitKids = [c \in Comm |-> -1]
  /\ wPc = [h \in Helpers |-> "wait"] /\ wJob = [h \in Helpers |-> -1] /\ wMyJob = [h \in Helpers |-> -1]
  /\ wHasRes = [h \in Helpers |-> FALSE]
  /\ ePc = "wait" /\ search = FALSE /\ quitFlag = FALSE /\ pending = 0 /\ optsDone = TRUE
  /\ ponder = FALSE /\ infinite = FALSE /\ stopReq = FALSE /\ mainJob = 0 /\ sid = 0 /\ jobsDone = 0 /\ waitForStop = FALSE
  /\ pPc = "next" /\ pIdx = 1 /\ everSearched = FALSE
  /\ out = [s \in 0..Len(Script) |-> 0] /\ readyoks = 0
  /\ sent = 0 /\ applied = 0 /\ taking = 0

---------------------------------------------------------------------------
\* Protocol thread
PU == <<notified, q, ackSelf, ackKids, quitKids, wPc, wJob, wMyJob, wHasRes, ePc, mainJob, jobsDone, waitForStop, out>>
CurCmd == Script[pIdx]
P_Next ==
  /\ pPc = "next" /\ pIdx <= Len(Script)
  /\ pPc' = (CASE CurCmd \in {"go","goinf","goponder","stop","quit"} -> "st1"
               [] CurCmd = "ponderhit" -> "ph1"
               [] CurCmd = "setopt" -> "so1"
               [] CurCmd = "isready" -> "rd1")
  /\ UNCHANGED <<notified, q, ackSelf, ackKids, quitKids, wPc, wJob, wMyJob, wHasRes, ePc, search, quitFlag, pending, optsDone,
                 ponder, infinite, stopReq, mainJob, sid, jobsDone, waitForStop, pIdx, everSearched, out, readyoks>>
P_St1 ==
         /\ pPc = "st1" /\ stopReq' = (IF everSearched THEN TRUE ELSE stopReq) /\ pPc' = "st2"
         /\ UNCHANGED <<notified, q, ackSelf, ackKids, quitKids, wPc, wJob, wMyJob, wHasRes, ePc, search, quitFlag, pending, optsDone,
                        ponder, infinite, mainJob, sid, jobsDone, waitForStop, pIdx, everSearched, out, readyoks>>
P_St2 ==
         /\ pPc = "st2" /\ infinite' = FALSE /\ pPc' = "st3"
         /\ UNCHANGED <<notified, q, ackSelf, ackKids, quitKids, wPc, wJob, wMyJob, wHasRes, ePc, search, quitFlag, pending, optsDone,
                        ponder, stopReq, mainJob, sid, jobsDone, waitForStop, pIdx, everSearched, out, readyoks>>
P_St3 ==
         /\ pPc = "st3" /\ ponder' = FALSE /\ pPc' = "st4"
         /\ UNCHANGED <<notified, q, ackSelf, ackKids, quitKids, wPc, wJob, wMyJob, wHasRes, ePc, search, quitFlag, pending, optsDone,
                        infinite, stopReq, mainJob, sid, jobsDone, waitForStop, pIdx, everSearched, out, readyoks>>
P_WaitStop ==
         /\ pPc = "st4" /\ ~search /\ pPc' = "st5"
         /\ UNCHANGED <<notified, q, ackSelf, ackKids, quitKids, wPc, wJob, wMyJob, wHasRes, ePc, search, quitFlag, pending, optsDone,
                        ponder, infinite, stopReq, mainJob, sid, jobsDone, waitForStop, pIdx, everSearched, out, readyoks>>
P_WaitOpts ==
         /\ pPc = "st5" /\ OptsBarrierOpen
         /\ pPc' = (CASE CurCmd = "stop" -> "next" [] CurCmd = "quit" -> "qt1" [] OTHER -> "go1")
         /\ pIdx' = (IF CurCmd = "stop" THEN pIdx + 1 ELSE pIdx)
         /\ UNCHANGED <<notified, q, ackSelf, ackKids, quitKids, wPc, wJob, wMyJob, wHasRes, ePc, search, quitFlag, pending, optsDone,
                        ponder, infinite, stopReq, mainJob, sid, jobsDone, waitForStop, everSearched, out, readyoks>>
\* new Search object: fresh limits, flags
P_Go1 ==
         /\ pPc = "go1" /\ ponder' = (CurCmd = "goponder") /\ infinite' = (CurCmd = "goinf")
         /\ stopReq' = FALSE /\ sid' = sid + 1 /\ everSearched' = TRUE /\ pPc' = "go2"
         /\ UNCHANGED <<notified, q, ackSelf, ackKids, quitKids, wPc, wJob, wMyJob, wHasRes, ePc, search, quitFlag, pending, optsDone,
                        mainJob, jobsDone, waitForStop, pIdx, out, readyoks>>
P_Publish ==
         /\ pPc = "go2" /\ search' = TRUE /\ pPc' = "go3"
         /\ UNCHANGED <<notified, q, ackSelf, ackKids, quitKids, wPc, wJob, wMyJob, wHasRes, ePc, quitFlag, pending, optsDone,
                        ponder, infinite, stopReq, mainJob, sid, jobsDone, waitForStop, pIdx, everSearched, out, readyoks>>
P_NotifyE ==
         /\ pPc \in {"go3","so2","qt2"} /\ notified' = [notified EXCEPT !["E"] = TRUE]
         /\ pPc' = "next" /\ pIdx' = pIdx + 1
         /\ UNCHANGED <<q, ackSelf, ackKids, quitKids, wPc, wJob, wMyJob, wHasRes, ePc, search, quitFlag, pending, optsDone,
                        ponder, infinite, stopReq, mainJob, sid, jobsDone, waitForStop, everSearched, out, readyoks>>
\* ponderhit: limits installed (abstractly: search may now end by itself), infinite recomputed (false here), ponder cleared
P_Ph1 ==
         /\ pPc = "ph1" /\ infinite' = FALSE /\ pPc' = "ph2"
         /\ UNCHANGED <<notified, q, ackSelf, ackKids, quitKids, wPc, wJob, wMyJob, wHasRes, ePc, search, quitFlag, pending, optsDone,
                        ponder, stopReq, mainJob, sid, jobsDone, waitForStop, pIdx, everSearched, out, readyoks>>
P_Ph2 ==
         /\ pPc = "ph2" /\ ponder' = FALSE /\ pPc' = "next" /\ pIdx' = pIdx + 1
         /\ UNCHANGED <<notified, q, ackSelf, ackKids, quitKids, wPc, wJob, wMyJob, wHasRes, ePc, search, quitFlag, pending, optsDone,
                        infinite, stopReq, mainJob, sid, jobsDone, waitForStop, everSearched, out, readyoks>>
P_So1 ==
         /\ pPc = "so1" /\ pending' = pending + 1 /\ optsDone' = FALSE /\ pPc' = "so2"
         /\ UNCHANGED <<notified, q, ackSelf, ackKids, quitKids, wPc, wJob, wMyJob, wHasRes, ePc, search, quitFlag,
                        ponder, infinite, stopReq, mainJob, sid, jobsDone, waitForStop, pIdx, everSearched, out, readyoks>>
P_Rd1 ==
         /\ pPc = "rd1" /\ (everSearched \/ OptsBarrierOpen) /\ readyoks' = readyoks + 1 /\ pPc' = "next" /\ pIdx' = pIdx + 1
         /\ UNCHANGED <<notified, q, ackSelf, ackKids, quitKids, wPc, wJob, wMyJob, wHasRes, ePc, search, quitFlag, pending, optsDone,
                        ponder, infinite, stopReq, mainJob, sid, jobsDone, waitForStop, everSearched, out>>
P_Qt1 ==
         /\ pPc = "qt1" /\ quitFlag' = TRUE /\ pPc' = "qt2"
         /\ UNCHANGED <<notified, q, ackSelf, ackKids, quitKids, wPc, wJob, wMyJob, wHasRes, ePc, search, pending, optsDone,
                        ponder, infinite, stopReq, mainJob, sid, jobsDone, waitForStop, pIdx, everSearched, out, readyoks>>
PNext == P_Next \/ P_St1 \/ P_St2 \/ P_St3 \/ P_WaitStop \/ P_WaitOpts \/ P_Go1 \/ P_Publish \/ P_NotifyE
         \/ P_Ph1 \/ P_Ph2 \/ P_So1 \/ P_Rd1 \/ P_Qt1

---------------------------------------------------------------------------
\* Engine thread
EU == <<wPc, wJob, wMyJob, wHasRes, pPc, pIdx, everSearched, ponder, infinite, stopReq, sid, readyoks>>
E_Wait ==
          /\ ePc = "wait" /\ notified["E"] /\ notified' = [notified EXCEPT !["E"] = FALSE] /\ ePc' = "chkquit"
          /\ UNCHANGED <<q, ackSelf, ackKids, quitKids, search, quitFlag, pending, optsDone, mainJob, jobsDone, waitForStop, out>> /\ UNCHANGED EU
E_ChkQuit ==
          /\ ePc = "chkquit" /\ ePc' = (IF quitFlag THEN "quit1" ELSE IF search THEN "begin" ELSE "opts1")   \* options queued after "go" wait
          /\ UNCHANGED <<notified, q, ackSelf, ackKids, quitKids, search, quitFlag, pending, optsDone, mainJob, jobsDone, waitForStop, out>> /\ UNCHANGED EU
\* setOptions loop: swap; if empty -> finished
E_Opts(from, to) ==
          /\ ePc = from
          /\ IF pending = 0 THEN optsDone' = TRUE /\ ePc' = to /\ pending' = pending
             ELSE pending' = 0 /\ optsDone' = optsDone /\ ePc' = (IF from = "opts1" THEN "apply1" ELSE "apply2")    \* batch taken (under the mutex) ...
          /\ UNCHANGED <<notified, q, ackSelf, ackKids, quitKids, search, quitFlag, mainJob, jobsDone, waitForStop, out>> /\ UNCHANGED EU
\* ... and applied outside the mutex (params.set + listeners), then the loop looks for more
E_Apply(ap, back) ==
          /\ ePc = ap /\ ePc' = back
          /\ UNCHANGED <<notified, q, ackSelf, ackKids, quitKids, search, quitFlag, pending, optsDone, mainJob, jobsDone, waitForStop, out>> /\ UNCHANGED EU
E_ChkSearch ==
          /\ ePc = "chksearch" /\ ePc' = (IF search THEN "begin" ELSE "wait")
          /\ UNCHANGED <<notified, q, ackSelf, ackKids, quitKids, search, quitFlag, pending, optsDone, mainJob, jobsDone, waitForStop, out>> /\ UNCHANGED EU
\* begin: book move (no search) or iterative deepening: INIT to kids
E_BeginBook ==
          /\ ePc = "begin" /\ ~infinite /\ waitForStop' = FALSE /\ ePc' = "pwait"
          /\ UNCHANGED <<notified, q, ackSelf, ackKids, quitKids, search, quitFlag, pending, optsDone, mainJob, jobsDone, out>> /\ UNCHANGED EU
E_BeginSearch ==
          /\ ePc = "begin" /\ waitForStop' = TRUE /\ mainJob' = 0 /\ jobsDone' = 0
          /\ PushKids("E", Cmd("INIT", -1, sid), FALSE) /\ ePc' = "newjob"
          /\ UNCHANGED <<ackSelf, ackKids, quitKids, search, quitFlag, pending, optsDone, out>> /\ UNCHANGED EU
E_NewJob ==
          /\ ePc = "newjob" /\ mainJob' = mainJob + 1
          /\ PushKids("E", Cmd("START", mainJob + 1, sid), TRUE) /\ ePc' = "poll"
          /\ UNCHANGED <<ackSelf, ackKids, quitKids, search, quitFlag, pending, optsDone, jobsDone, waitForStop, out>> /\ UNCHANGED EU
\* shouldStop: drain one command at a time; only RESULT for current job matters
JobEnd == IF jobsDone + 1 >= MaxJobs THEN "pwait" ELSE "newjob"
E_PollCmd ==
          /\ ePc = "poll" /\ q["E"] # <<>>
          /\ LET c == Head(q["E"]) IN
             /\ q' = [q EXCEPT !["E"] = Tail(@)]
             /\ IF c.t = "RESULT" /\ c.job = mainJob
                THEN ePc' \in {JobEnd, "pwait"} /\ jobsDone' = jobsDone + 1
                ELSE ePc' = ePc /\ jobsDone' = jobsDone
          /\ UNCHANGED <<notified, ackSelf, ackKids, quitKids, search, quitFlag, pending, optsDone, mainJob, waitForStop, out>> /\ UNCHANGED EU
E_PollEnd ==
          /\ ePc = "poll" /\ q["E"] = <<>>
          /\ IF stopReq THEN ePc' = "pwait" /\ jobsDone' = jobsDone
             ELSE \/ ePc' = "poll" /\ jobsDone' = jobsDone
                  \/ ePc' \in {JobEnd, "pwait"} /\ jobsDone' = jobsDone + 1
          /\ UNCHANGED <<notified, q, ackSelf, ackKids, quitKids, search, quitFlag, pending, optsDone, mainJob, waitForStop, out>> /\ UNCHANGED EU
E_PonderWait ==
          /\ ePc = "pwait" /\ ~(ponder \/ infinite) /\ ePc' = "best"
          /\ UNCHANGED <<notified, q, ackSelf, ackKids, quitKids, search, quitFlag, pending, optsDone, mainJob, jobsDone, waitForStop, out>> /\ UNCHANGED EU
E_Bestmove ==
          /\ ePc = "best" /\ out' = [out EXCEPT ![sid] = @ + 1] /\ ePc' = (IF waitForStop THEN "sendstop" ELSE "opts2")
          /\ UNCHANGED <<notified, q, ackSelf, ackKids, quitKids, search, quitFlag, pending, optsDone, mainJob, jobsDone, waitForStop>> /\ UNCHANGED EU
E_SendStop ==
          /\ ePc = "sendstop" /\ ackSelf' = [ackSelf EXCEPT !["E"] = TRUE] /\ ackKids' = [ackKids EXCEPT !["E"] = Cardinality(Kids("E"))]
          /\ q' = [y \in Comm |-> IF y \in Kids("E") THEN Append(Purge(q[y]), Cmd("STOP", -1, sid)) ELSE q[y]]
          /\ notified' = [y \in Comm |-> IF y \in Kids("E") \/ y = "E" THEN TRUE ELSE notified[y]]
          /\ ePc' = "selfack"
          /\ UNCHANGED <<quitKids, search, quitFlag, pending, optsDone, mainJob, jobsDone, waitForStop, out>> /\ UNCHANGED EU
E_SelfAck ==
          /\ ePc = "selfack" /\ ackSelf' = [ackSelf EXCEPT !["E"] = FALSE] /\ ePc' = "ackpoll"
          /\ UNCHANGED <<notified, q, ackKids, quitKids, search, quitFlag, pending, optsDone, mainJob, jobsDone, waitForStop, out>> /\ UNCHANGED EU
E_AckPollCmd ==
          /\ ePc = "ackpoll" /\ q["E"] # <<>>
          /\ LET c == Head(q["E"]) IN
             /\ q' = [q EXCEPT !["E"] = Tail(@)]
             /\ ackKids' = IF c.t = "STOPACK" THEN [ackKids EXCEPT !["E"] = @ - 1] ELSE ackKids
          /\ UNCHANGED <<notified, ackSelf, quitKids, search, quitFlag, pending, optsDone, mainJob, jobsDone, waitForStop, out, ePc>> /\ UNCHANGED EU
E_AckPollEnd ==
          /\ ePc = "ackpoll" /\ q["E"] = <<>>
          /\ ePc' = (IF ackKids["E"] = 0 /\ ~ackSelf["E"] THEN "renotify" ELSE "ackwait")
          /\ UNCHANGED <<notified, q, ackSelf, ackKids, quitKids, search, quitFlag, pending, optsDone, mainJob, jobsDone, waitForStop, out>> /\ UNCHANGED EU
E_AckWait ==
          /\ ePc = "ackwait" /\ notified["E"] /\ notified' = [notified EXCEPT !["E"] = FALSE] /\ ePc' = "ackpoll"
          /\ UNCHANGED <<q, ackSelf, ackKids, quitKids, search, quitFlag, pending, optsDone, mainJob, jobsDone, waitForStop, out>> /\ UNCHANGED EU
E_ReNotify ==
          /\ ePc = "renotify" /\ notified' = [notified EXCEPT !["E"] = TRUE] /\ ePc' = "opts2"
          /\ UNCHANGED <<q, ackSelf, ackKids, quitKids, search, quitFlag, pending, optsDone, mainJob, jobsDone, waitForStop, out>> /\ UNCHANGED EU
E_SearchDone ==
          /\ ePc = "done" /\ search' = FALSE /\ ePc' = "wait"
          /\ UNCHANGED <<notified, q, ackSelf, ackKids, quitKids, quitFlag, pending, optsDone, mainJob, jobsDone, waitForStop, out>> /\ UNCHANGED EU
E_Quit1 ==
          /\ ePc = "quit1"
          /\ IF Kids("E") = {} THEN quitKids' = [quitKids EXCEPT !["E"] = 0] /\ q' = q /\ notified' = notified
             ELSE quitKids' = [quitKids EXCEPT !["E"] = Cardinality(Kids("E"))] /\ PushKids("E", Cmd("QUIT", -1, sid), FALSE)
          /\ ePc' = "quitpoll"
          /\ UNCHANGED <<ackSelf, ackKids, search, quitFlag, pending, optsDone, mainJob, jobsDone, waitForStop, out>> /\ UNCHANGED EU
E_QuitPollCmd ==
          /\ ePc = "quitpoll" /\ q["E"] # <<>>
          /\ LET c == Head(q["E"]) IN
             /\ q' = [q EXCEPT !["E"] = Tail(@)]
             /\ quitKids' = IF c.t = "QUITACK" THEN [quitKids EXCEPT !["E"] = @ - 1] ELSE quitKids
          /\ UNCHANGED <<notified, ackSelf, ackKids, search, quitFlag, pending, optsDone, mainJob, jobsDone, waitForStop, out, ePc>> /\ UNCHANGED EU
E_QuitPollEnd ==
          /\ ePc = "quitpoll" /\ q["E"] = <<>> /\ ePc' = (IF quitKids["E"] = 0 THEN "exit" ELSE "quitwait")
          /\ UNCHANGED <<notified, q, ackSelf, ackKids, quitKids, search, quitFlag, pending, optsDone, mainJob, jobsDone, waitForStop, out>> /\ UNCHANGED EU
E_QuitWait ==
          /\ ePc = "quitwait" /\ notified["E"] /\ notified' = [notified EXCEPT !["E"] = FALSE] /\ ePc' = "quitpoll"
          /\ UNCHANGED <<q, ackSelf, ackKids, quitKids, search, quitFlag, pending, optsDone, mainJob, jobsDone, waitForStop, out>> /\ UNCHANGED EU
ENext == E_Wait \/ E_ChkQuit \/ E_Opts("opts1", "chksearch") \/ E_Opts("opts2", "done") \/ E_Apply("apply1", "opts1") \/ E_Apply("apply2", "opts2") \/ E_ChkSearch \/ E_BeginBook \/ E_BeginSearch
         \/ E_NewJob \/ E_PollCmd \/ E_PollEnd \/ E_PonderWait \/ E_Bestmove \/ E_SendStop \/ E_SelfAck
         \/ E_AckPollCmd \/ E_AckPollEnd \/ E_AckWait \/ E_ReNotify \/ E_SearchDone
         \/ E_Quit1 \/ E_QuitPollCmd \/ E_QuitPollEnd \/ E_QuitWait

---------------------------------------------------------------------------
\* Helper threads
WU == <<ePc, search, quitFlag, pending, optsDone, ponder, infinite, stopReq, mainJob, sid, jobsDone, waitForStop,
        pPc, pIdx, everSearched, out, readyoks>>
HasStopAck(c) == ackKids[c] = 0 /\ ~ackSelf[c]
SendUp(h, c, qq, nn) ==
   /\ q' = [qq EXCEPT ![Par[h]] = Append(@, c)]
   /\ notified' = [nn EXCEPT ![Par[h]] = TRUE]
W_Wait(h) ==
          /\ wPc[h] = "wait" /\ notified[h] /\ notified' = [notified EXCEPT ![h] = FALSE] /\ wPc' = [wPc EXCEPT ![h] = "poll"]
          /\ UNCHANGED <<q, ackSelf, ackKids, quitKids, wJob, wMyJob, wHasRes>> /\ UNCHANGED WU
\* handle one command (both in main loop poll and in search poll)
W_Handle(h) ==
   /\ wPc[h] \in {"poll", "spoll"} /\ q[h] # <<>>
   /\ LET c == Head(q[h])
          q1 == [q EXCEPT ![h] = Tail(@)]
          kids == Kids(h)
          down(cc, purge) == [y \in Comm |-> IF y \in kids THEN Append(IF purge THEN Purge(q1[y]) ELSE q1[y], cc) ELSE q1[y]]
          nkids == [y \in Comm |-> IF y \in kids THEN TRUE ELSE notified[y]]
      IN CASE c.t = "INIT" ->
                /\ q' = down(c, FALSE) /\ notified' = nkids /\ wJob' = [wJob EXCEPT ![h] = -1]
                /\ UNCHANGED <<ackSelf, ackKids, quitKids, wHasRes>>
           [] c.t = "START" ->
                /\ q' = down(c, TRUE) /\ notified' = nkids /\ wJob' = [wJob EXCEPT ![h] = c.job]
                /\ wHasRes' = [wHasRes EXCEPT ![h] = FALSE]
                /\ UNCHANGED <<ackSelf, ackKids, quitKids>>
           [] c.t = "STOP" ->
                /\ q' = down(c, TRUE) /\ notified' = [nkids EXCEPT ![h] = TRUE]
                /\ ackSelf' = [ackSelf EXCEPT ![h] = TRUE] /\ ackKids' = [ackKids EXCEPT ![h] = Cardinality(kids)]
                /\ wJob' = [wJob EXCEPT ![h] = -1]
                /\ UNCHANGED <<quitKids, wHasRes>>
           [] c.t = "RESULT" ->
                IF ~wHasRes[h] /\ wJob[h] = c.job
                THEN /\ SendUp(h, c, q1, notified) /\ wHasRes' = [wHasRes EXCEPT ![h] = TRUE]
                     /\ UNCHANGED <<ackSelf, ackKids, quitKids, wJob>>
                ELSE q' = q1 /\ UNCHANGED <<notified, ackSelf, ackKids, quitKids, wJob, wHasRes>>
           [] c.t = "STOPACK" ->
                /\ ackKids' = [ackKids EXCEPT ![h] = @ - 1]
                /\ IF ackKids[h] - 1 = 0 /\ ~ackSelf[h]
                   THEN SendUp(h, Cmd("STOPACK", -1, c.sid), q1, notified)
                   ELSE q' = q1 /\ notified' = notified
                /\ UNCHANGED <<ackSelf, quitKids, wJob, wHasRes>>
           [] c.t = "QUIT" ->
                IF kids = {}
                THEN /\ quitKids' = [quitKids EXCEPT ![h] = 0]
                     /\ SendUp(h, Cmd("QUITACK", -1, c.sid), q1, notified)
                     /\ UNCHANGED <<ackSelf, ackKids, wJob, wHasRes>>
                ELSE /\ quitKids' = [quitKids EXCEPT ![h] = Cardinality(kids)]
                     /\ q' = down(c, FALSE) /\ notified' = nkids
                     /\ UNCHANGED <<ackSelf, ackKids, wJob, wHasRes>>
           [] c.t = "QUITACK" ->
                /\ quitKids' = [quitKids EXCEPT ![h] = @ - 1]
                /\ IF quitKids[h] - 1 = 0 THEN SendUp(h, Cmd("QUITACK", -1, c.sid), q1, notified)
                   ELSE q' = q1 /\ notified' = notified
                /\ UNCHANGED <<ackSelf, ackKids, wJob, wHasRes>>
   /\ UNCHANGED <<wPc, wMyJob>> /\ UNCHANGED WU
\* main loop after poll drained
W_PollEnd(h) ==
   /\ wPc[h] = "poll" /\ q[h] = <<>>
   /\ IF quitKids[h] = 0 THEN wPc' = [wPc EXCEPT ![h] = "exit"] /\ wMyJob' = wMyJob
      ELSE IF wJob[h] # -1 THEN wPc' = [wPc EXCEPT ![h] = "search"] /\ wMyJob' = [wMyJob EXCEPT ![h] = wJob[h]]
      ELSE wPc' = [wPc EXCEPT ![h] = "selfack"] /\ wMyJob' = wMyJob
   /\ UNCHANGED <<notified, q, ackSelf, ackKids, quitKids, wJob, wHasRes>> /\ UNCHANGED WU
\* in search: go to poll (shouldStop)
W_SearchToPoll(h) ==
   /\ wPc[h] = "search" /\ wPc' = [wPc EXCEPT ![h] = "spoll"]
   /\ UNCHANGED <<notified, q, ackSelf, ackKids, quitKids, wJob, wMyJob, wHasRes>> /\ UNCHANGED WU
W_SPollEnd(h) ==
   /\ wPc[h] = "spoll" /\ q[h] = <<>>
   /\ IF wJob[h] # wMyJob[h] THEN wPc' = [wPc EXCEPT ![h] = "selfack"]   \* StopSearch thrown
      ELSE wPc' = [wPc EXCEPT ![h] = "search"]
   /\ UNCHANGED <<notified, q, ackSelf, ackKids, quitKids, wJob, wMyJob, wHasRes>> /\ UNCHANGED WU
\* search finished one depth: report result (once), keep searching deeper
W_Report(h) ==
   /\ wPc[h] = "search"
   /\ IF ~wHasRes[h] /\ wJob[h] = wMyJob[h]
      THEN SendUp(h, Cmd("RESULT", wMyJob[h], sid), q, notified) /\ wHasRes' = [wHasRes EXCEPT ![h] = TRUE]
      ELSE UNCHANGED <<q, notified, wHasRes>>
   /\ UNCHANGED <<ackSelf, ackKids, quitKids, wPc, wJob, wMyJob>> /\ UNCHANGED WU
W_SelfAck(h) ==
   /\ wPc[h] = "selfack"
   /\ IF ackSelf[h]
      THEN /\ ackSelf' = [ackSelf EXCEPT ![h] = FALSE]
           /\ IF ackKids[h] = 0 THEN SendUp(h, Cmd("STOPACK", -1, sid), q, notified) ELSE UNCHANGED <<q, notified>>
      ELSE UNCHANGED <<ackSelf, q, notified>>
   /\ wPc' = [wPc EXCEPT ![h] = "wait"]
   /\ UNCHANGED <<ackKids, quitKids, wJob, wMyJob, wHasRes>> /\ UNCHANGED WU
WNext == \E h \in Helpers : W_Wait(h) \/ W_Handle(h) \/ W_PollEnd(h) \/ W_SearchToPoll(h) \/ W_SPollEnd(h) \/ W_Report(h) \/ W_SelfAck(h)

\* bookkeeping of the options (history variables of the barrier property; they never influence a guard)
OvP == IF pPc = "so1" THEN sent' = sent + 1 /\ UNCHANGED <<applied, taking>> ELSE UNCHANGED ov
OvE == IF ePc \in {"opts1", "opts2"} /\ pending > 0 THEN taking' = pending /\ UNCHANGED <<sent, applied>>
       ELSE IF ePc \in {"apply1", "apply2"} THEN applied' = applied + taking /\ taking' = 0 /\ UNCHANGED sent
       ELSE UNCHANGED ov
Next == (PNext /\ OvP) \/ (ENext /\ OvE) \/ (WNext /\ UNCHANGED ov)
Spec == Init /\ [][Next]_vars
FairSpec == Spec /\ WF_vars(PNext /\ OvP) /\ WF_vars(ENext /\ OvE)
            /\ \A h \in Helpers : WF_vars((W_Wait(h) \/ W_Handle(h) \/ W_PollEnd(h) \/ W_SearchToPoll(h) \/ W_SPollEnd(h) \/ W_SelfAck(h)) /\ UNCHANGED ov)

---------------------------------------------------------------------------
Done == pIdx > Len(Script) /\ pPc = "next"
Terminated == Done /\ (ePc = "exit" \/ (ePc = "wait" /\ ~notified["E"]))
AtMostOneBest == \A s \in DOMAIN out : out[s] <= 1
AckNonNeg == \A c \in Comm : ackKids[c] >= 0
Quiescent == (ePc = "done") =>
   (/\ \A h \in Helpers : (wJob[h] = -1 /\ wPc[h] \in {"wait","poll","selfack"})
    /\ \A c \in Comm : (ackKids[c] = 0 /\ ~ackSelf[c])
    /\ \A c \in Comm : \A i \in 1..Len(q[c]) : q[c][i].t \notin {"START","STOP","RESULT","STOPACK"})
ResultFresh == \A i \in 1..Len(q["E"]) : (q["E"][i].t = "RESULT" /\ ePc = "poll" /\ q["E"][i].job = mainJob) => q["E"][i].sid = sid
NoDeadlock == ENABLED Next \/ Terminated
\* a search is set up (and 'readyok' is owed) only when every option handed over so far is in effect
OptionsInEffectAtGo == (pPc = "go1") => (applied = sent /\ taking = 0)
=============================================================================
