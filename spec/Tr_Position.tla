----------------------------- MODULE Tr_Position -----------------------------
(***************************************************************************)
(* C02 trace validation.  A stack machine over Chess.tla positions:        *)
(*   Mv(m)    push, pos := Play(pos, m)          (Position::makeMove)      *)
(*   Unmv     pos := top, pop                    (Position::unMakeMove)    *)
(*   NullOn / NullOff  the side/ep/clock edit of Search's null move        *)
(*   Copy     no change (copy construction / assignment)                   *)
(* After every step the State line carries all fields of the real Position *)
(* and its incrementally maintained attributes; they must equal the spec   *)
(* state, resp. the from-scratch definition below.  Fen / Ser lines carry  *)
(* the re-read position; Same lines carry two occurrences of candidate     *)
(* equal positions for the functional-consistency clause of the hash keys. *)
(***************************************************************************)
EXTENDS Chess, Json, IOUtils
CONSTANT DIAG
VARIABLES l, pos, stack, pv
Tr == ndJsonDeserialize(IOEnv.TRACE)

Chk(name, cond, info) == IF cond THEN TRUE ELSE (DIAG /\ PrintT(<<"MISMATCH", name, l, info>>))
Ev(e) == l <= Len(Tr) /\ Tr[l].e = e /\ l' = l + 1

(* from-scratch definitions of the derived attributes *)
RECURSIVE SumSq(_,_,_)
SumSq(F(_), b, s) == IF s > 63 THEN 0 ELSE F(b[s]) + SumSq(F, b, s + 1)
MatUnitW(pc) == IF pc = WP THEN 1 ELSE IF pc = WR THEN 9 ELSE IF pc = WN THEN 91 ELSE IF pc = WB THEN 767 ELSE IF pc = WQ THEN 5903 ELSE 0
MatUnitB(pc) == IF IsB(pc) THEN MatUnitW(pc - 6) ELSE 0
MatHalfW(b) == SumSq(MatUnitW, b, 0)
MatHalfB(b) == SumSq(MatUnitB, b, 0)
ValW(pc) == IF pc \in 2..6 THEN pv[pc + 1] ELSE 0
ValB(pc) == IF pc \in 8..12 THEN pv[pc + 1] ELSE 0
ValWP(pc) == IF pc = WP THEN pv[pc + 1] ELSE 0
ValBP(pc) == IF pc = BP THEN pv[pc + 1] ELSE 0
ColourCode(pc) == IF pc = 0 THEN 0 ELSE IF IsW(pc) THEN 1 ELSE 2

SameFields(r, p) ==
   /\ BoardOfSeq(r.board) = p.b /\ r.wtm = p.w /\ r.castle = p.c /\ r.ep = p.e /\ r.hmc = p.h /\ r.full = p.f

DerivedOK(r, name) ==
   LET b == BoardOfSeq(r.board) IN
   /\ Chk(<<name, "hash=scratch">>, r.hash = r.scratch, <<r.hash, r.scratch>>)
   /\ Chk(<<name, "phash=scratch">>, r.phash = r.pscratch, <<r.phash, r.pscratch>>)
   /\ Chk(<<name, "matId">>, r.matW = MatHalfW(b) /\ r.matB = MatHalfB(b), <<r.matW, MatHalfW(b), r.matB, MatHalfB(b)>>)
   /\ Chk(<<name, "mtrl">>, r.wMtrl = SumSq(ValW, b, 0) /\ r.bMtrl = SumSq(ValB, b, 0), <<r.wMtrl, r.bMtrl>>)
   /\ Chk(<<name, "pawnMtrl">>, r.wPawn = SumSq(ValWP, b, 0) /\ r.bPawn = SumSq(ValBP, b, 0), <<r.wPawn, r.bPawn>>)
   /\ Chk(<<name, "kingSq">>, b[r.wK] = WK /\ b[r.bK] = BK, <<r.wK, r.bK>>)
   /\ Chk(<<name, "pieceSets">>, \A s \in Sq : r.pbb[s+1] = b[s], r.pbb)
   /\ Chk(<<name, "colourSets">>, \A s \in Sq : r.cbb[s+1] = ColourCode(b[s]), r.cbb)
   /\ Chk(<<name, "occupied">>, r.occOk, r.occOk)
   /\ Chk(<<name, "matIdFromCounts">>, r.matCntOk, r.matCntOk)

TMeta == Ev("Meta") /\ pv' = Tr[l].pv /\ UNCHANGED <<pos, stack>>
TReset == Ev("Reset") /\ pos' = PosOfRec(Tr[l]) /\ stack' = <<>> /\ UNCHANGED pv
TMv == Ev("Mv") /\ pos' = Play(pos, MvOfSeq(Tr[l].m)) /\ stack' = <<pos>> \o stack /\ UNCHANGED pv
TUnmv == Ev("Unmv") /\ stack # <<>> /\ pos' = Head(stack) /\ stack' = Tail(stack) /\ UNCHANGED pv
TNullOn == Ev("NullOn") /\ pos' = [pos EXCEPT !.w = ~pos.w, !.e = NoSq, !.h = 0] /\ stack' = <<pos>> \o stack /\ UNCHANGED pv
TNullOff == Ev("NullOff") /\ stack # <<>> /\ pos' = Head(stack) /\ stack' = Tail(stack) /\ UNCHANGED pv
TCopy == Ev("Copy") /\ UNCHANGED <<pos, stack, pv>>

TState ==
   /\ Ev("State")
   /\ UNCHANGED <<stack, pv>>
   /\ pos' = IF DIAG /\ ~SameFields(Tr[l], pos) THEN PosOfRec(Tr[l]) ELSE pos   \* diagnosis mode resynchronises
   /\ Chk("Fields", SameFields(Tr[l], pos),
          <<"impl", Tr[l].wtm, Tr[l].castle, Tr[l].ep, Tr[l].hmc, Tr[l].full, "spec", pos.w, pos.c, pos.e, pos.h, pos.f,
            "boardDiff", {s \in Sq : Tr[l].board[s+1] # pos.b[s]}>>)
   /\ DerivedOK(Tr[l], "State")

\* a mismatch that is exactly texel's pseudo en-passant square: the only difference is the
\* ep field, the original has an ep square without a legal ep capture, the re-read has none
PseudoEpOnly(o, r) ==
   /\ o.b = r.b /\ o.w = r.w /\ o.c = r.c /\ o.h = r.h /\ o.f = r.f
   /\ o.e # NoSq /\ r.e = NoSq /\ FideEp(o) = NoSq

TFen ==
   /\ Ev("Fen")
   /\ UNCHANGED <<pos, stack, pv>>
   /\ LET o == PosOfRec(Tr[l].orig)  r == PosOfRec(Tr[l].re) IN
      /\ Chk("FenOrigIsState", o = pos, Tr[l].text)
      /\ IF PseudoEpOnly(o, r)
         THEN PrintT(<<"KNOWN", "pseudo-ep", "FenRoundTrip", l, Tr[l].text>>)   \* named deviation; see known findings
         ELSE /\ Chk("FenRoundTrip", o = r, Tr[l].text)
              /\ Chk("FenRoundTripEq", Tr[l].eq, Tr[l].text)
      /\ (FideKey(o) = FideKey(r) /\ ~PseudoEpOnly(o, r)) => Chk("FenHash", Tr[l].orig.hash = Tr[l].re.hash, Tr[l].text)
      /\ (PseudoEpOnly(o, r) /\ Tr[l].orig.hash # Tr[l].re.hash) => PrintT(<<"KNOWN", "pseudo-ep", "FideHash", l, Tr[l].text>>)

\* two FEN texts that differ only in the en-passant field, read separately: if they describe rule-equal positions (no legal
\* en-passant capture) the two positions read are identical, hash keys included
TFenEp ==
   /\ Ev("FenEp")
   /\ UNCHANGED <<pos, stack, pv>>
   /\ LET a == PosOfRec(Tr[l].a)  b == PosOfRec(Tr[l].b) IN
      (FideKey(a) = FideKey(b)) => Chk("RuleEqualFensReadEqual", a = b /\ Tr[l].eq /\ Tr[l].a.hash = Tr[l].b.hash, Tr[l].text)

TSer ==
   /\ Ev("Ser")
   /\ UNCHANGED <<pos, stack, pv>>
   /\ Chk("SerializeRoundTrip", SameFields(Tr[l].re, pos) /\ Tr[l].eq, Tr[l].re.ep)
   /\ DerivedOK(Tr[l].re, "Ser")

TSame ==
   /\ Ev("Same")
   /\ UNCHANGED <<pos, stack, pv>>
   /\ LET a == PosOfRec(Tr[l].a)  b == PosOfRec(Tr[l].b) IN
      IF Tr[l].kind = "pos" THEN
         /\ (ImplKey(a) = ImplKey(b)) => Chk("HashFunctional", Tr[l].a.hash = Tr[l].b.hash, <<Tr[l].a.hash, Tr[l].b.hash>>)
         /\ (ImplKey(a) # ImplKey(b) /\ FideKey(a) = FideKey(b)) =>
               IF Tr[l].a.hash = Tr[l].b.hash THEN TRUE
               ELSE IF a.b = b.b /\ a.w = b.w /\ a.c = b.c
                    THEN PrintT(<<"KNOWN", "pseudo-ep", "FideHash", l, <<Tr[l].a.ep, Tr[l].b.ep>>>>)
                    ELSE Chk("FideHash", FALSE, <<Tr[l].a.hash, Tr[l].b.hash>>)
      ELSE ({s \in Sq : Kind(a.b[s]) = 6 /\ a.b[s] # b.b[s]} \cup {s \in Sq : Kind(b.b[s]) = 6 /\ a.b[s] # b.b[s]} = {})
               => Chk("PawnHashFunctional", Tr[l].a.phash = Tr[l].b.phash, <<Tr[l].a.phash, Tr[l].b.phash>>)

TInit == l = 1 /\ pos = InitPos /\ stack = <<>> /\ pv = <<>>
TNext == TMeta \/ TReset \/ TMv \/ TUnmv \/ TNullOn \/ TNullOff \/ TCopy \/ TState \/ TFen \/ TFenEp \/ TSer \/ TSame
Accepted == TLCGet("stats").diameter - 1 = Len(Tr) \/ (PrintT(<<"REJECTED_AT", TLCGet("stats").diameter>>) /\ FALSE)
=============================================================================
