----------------------------- MODULE MC_BookProp -----------------------------
(* Shapes, value alphabets and defect switches for BookProp.tla (same shapes as MC_BookOps.tla / harness/h_bookexh.cpp). *)
EXTENDS BookProp
\* chain: 1 root -> 2 N -> {3 C, 4 C2}
ChainKids == << <<<<10, 2>>>>, << <<11, 3>>, <<12, 4>> >>, <<>>, <<>> >>
ChainDepth == <<0, 1, 2, 2>>
ChainScores == << {IGNORE, -4, 0}, {-1, 0, 2}, {0, 2, INVALID}, {0, -1} >>
ChainCovered == << {0}, {-1}, {}, {} >>
ChainPend == {2, 3, 4}
\* diamond: 1 root -> 2 A -> 4 A1 -> 6 T ; 1 root -> 3 B -> 5 B1 -> 6 T
DiamondKids == << << <<10, 2>>, <<11, 3>> >>, <<<<12, 4>>>>, <<<<13, 5>>>>, <<<<14, 6>>>>, <<<<15, 6>>>>, <<>> >>
DiamondDepth == <<0, 1, 1, 2, 2, 3>>
DiamondScores == << {IGNORE, -3, 0}, {-1, 1}, {0, 2}, {-2, 0, INVALID}, {-1}, {0, 1, 3} >>
DiamondCovered == << {}, {0}, {}, {}, {1}, {} >>
DiamondPend == {4, 5, 6}
=============================================================================
