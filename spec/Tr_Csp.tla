-------------------------------- MODULE Tr_Csp --------------------------------
EXTENDS Csp, Json, IOUtils
CONSTANT DIAG
VARIABLE l
Tr == ndJsonDeserialize(IOEnv.TRACE)
Chk(name, cond, info) == IF cond THEN TRUE ELSE (DIAG /\ PrintT(<<"MISMATCH", name, l, info>>))
Ev(e) == l <= Len(Tr) /\ Tr[l].e = e /\ l' = l + 1
TMeta == Ev("Meta")
TSys ==
   /\ Ev("Sys")
   /\ LET sys == [vars |-> Tr[l].vars, cons |-> Tr[l].cons]
          sat == SatAlg(sys)
          small == SpaceSize(sys.vars, 1) <= 3000
      IN /\ (small => Chk("SpecDefinitionsAgree", SatDecl(sys) = sat, sys))        \* keeps the algorithmic oracle honest
         /\ \A k \in 1..Len(Tr[l].res) :
               LET r == Tr[l].res[k] IN
               /\ Chk("SolvableExactlyWhenSatisfiable", r.sat = sat, <<"pref", k, "solver", r.sat, "spec", sat, sys>>)
               /\ (r.sat => Chk("ReturnedAssignmentSatisfies", Len(r.vals) = Len(sys.vars) /\ Satisfies(sys, r.vals), <<"pref", k, r.vals, sys>>))
TInit == l = 1
TNext == TMeta \/ TSys
Accepted == TLCGet("stats").diameter - 1 = Len(Tr) \/ (PrintT(<<"REJECTED_AT", TLCGet("stats").diameter>>) /\ FALSE)
=============================================================================
