CONSTANTS DIAG = TRUE
 DepthCost = 100
 OwnCost = 200
 OtherCost = 50
INIT TInit
NEXT TNext
CHECK_DEADLOCK FALSE
POSTCONDITION Accepted
