CONSTANTS DIAG = TRUE
 DepthCost <- TrDepthCost
 OwnCost <- TrOwnCost
 OtherCost <- TrOtherCost
INIT TInit
NEXT TNext
CHECK_DEADLOCK FALSE
POSTCONDITION Accepted
