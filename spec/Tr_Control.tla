------------------------------ MODULE Tr_Control ------------------------------
(***************************************************************************)
(* C10 (and the controller part of C05): validation of traces recorded at  *)
(* the linearization points of the real thread controller                  *)
(* (parallel.cpp / enginecontrol.cpp / search.cpp hooks, TEXEL_VERIF).     *)
(* The mailbox contents, acknowledgement counters, job ids and search flag *)
(* are reconstructed from Send/Recv/StopSent/StopAckCall/WJob/... events   *)
(* with the transition rules of SearchControl.tla; the property monitor is *)
(* evaluated on that state:                                                *)
(*   ExactlyOneBest, BestOnlyWhenReleased, QuiescentAtDone,                *)
(*   AckCountersNonNegative, NoSearchOverlap, ResultOnlyForCurrentJob.     *)
(* Checks named "Design:*" are conformance to the design model (FIFO       *)
(* mailboxes with purge-on-START/STOP, counter bookkeeping); they are      *)
(* reported as MODEL-DRIFT, not as violations (DESIGN.md 3.5).             *)
(***************************************************************************)
EXTENDS Integers, Sequences, FiniteSets, TLC, Json, IOUtils
CONSTANT DIAG
VARIABLES l, comms, par, q, ackSelf, ackKids, job, inSearch, search, bestCnt, nGo, nBest, nDone, mainJob, quitting, sess,
          pend,    \* result provenance: thread -> job id for which the result it is about to send was computed (event ResultFor)
          hold, pendHold,   \* the running search is one whose answer is withheld (go infinite / go ponder) and nothing has released it yet
          optFin   \* options barrier: TRUE when every option handed over so far has been applied (mirrors optionsSetFinished)
\* sess = [inDo, ready, outs]: E inside doSearch, isready awaiting readyok, bestmove lines printed (C05 session contract)
Tr == ndJsonDeserialize(IOEnv.TRACE)
Chk(name, cond, info) == IF cond THEN TRUE ELSE (DIAG /\ PrintT(<<"MISMATCH", name, l, info>>))
Ev(e) == l <= Len(Tr) /\ Tr[l].e = e /\ l' = l + 1
vars == <<comms, par, q, ackSelf, ackKids, job, inSearch, search, bestCnt, nGo, nBest, nDone, mainJob, quitting, sess>>
Un(S) == UNCHANGED S

ASSIGN == 0  INIT == 1  START == 2  STOP == 3  SETPARAM == 4  QUIT == 5  RESULT == 6  STOPACK == 7  QUITACK == 8
Purge(s) == SelectSeq(s, LAMBDA c : c[1] \notin {START, STOP, RESULT})
Put(f, k, v) == [x \in DOMAIN f \cup {k} |-> IF x = k THEN v ELSE f[x]]
Workers == { c \in comms : par[c] # -1 }

Quiescent ==
   /\ \A w \in Workers : job[w] = -1 /\ ~inSearch[w]
   /\ \A c \in comms : ackKids[c] = 0 /\ ~ackSelf[c]
   /\ \A c \in comms : \A i \in 1..Len(q[c]) : q[c][i][1] \notin {START, STOP, RESULT, STOPACK}

TReg ==
   /\ (Ev("RegEngine") \/ Ev("RegWorker"))
   /\ LET o == Tr[l].o IN
      /\ comms' = comms \cup {o}
      /\ par' = Put(par, o, IF Tr[l].e = "RegEngine" THEN -1 ELSE Tr[l].b)
      /\ q' = Put(q, o, <<>>) /\ ackSelf' = Put(ackSelf, o, FALSE) /\ ackKids' = Put(ackKids, o, 0)
      /\ job' = Put(job, o, -1) /\ inSearch' = Put(inSearch, o, FALSE)
   /\ Un(<<search, bestCnt, nGo, nBest, nDone, mainJob, quitting, sess>>)

Drop(f, k) == [x \in DOMAIN f \ {k} |-> f[x]]
TUnreg ==
   /\ Ev("Unreg")
   /\ LET o == Tr[l].o IN
      IF o \in comms
      THEN /\ Chk("WorkerIdleWhenDestroyed", job[o] = -1 /\ ~inSearch[o] /\ ~search, <<o, job[o]>>)
           /\ comms' = comms \ {o} /\ par' = Drop(par, o) /\ q' = Drop(q, o) /\ ackSelf' = Drop(ackSelf, o)
           /\ ackKids' = Drop(ackKids, o) /\ job' = Drop(job, o) /\ inSearch' = Drop(inSearch, o)
      ELSE Un(<<comms, par, q, ackSelf, ackKids, job, inSearch>>)
   /\ Un(<<search, bestCnt, nGo, nBest, nDone, mainJob, quitting, sess>>)

TSend ==
   /\ Ev("Send")
   /\ LET o == Tr[l].o  c == <<Tr[l].a, Tr[l].b>> IN
      /\ Chk("Design:SendToKnownMailbox", o \in comms, o)
      \* a search result travels upwards under the job id it was computed for, whether sent by the searching thread itself or relayed
      /\ (c[1] = RESULT) => Chk("ResultKeepsTheJobItWasComputedFor", Tr[l].t \in DOMAIN pend /\ pend[Tr[l].t] = c[2],
                                 <<"thread", Tr[l].t, "sent as job", c[2], "computed for", IF Tr[l].t \in DOMAIN pend THEN pend[Tr[l].t] ELSE -99>>)
      /\ q' = IF o \in comms THEN [q EXCEPT ![o] = Append(IF c[1] \in {START, STOP} THEN Purge(@) ELSE @, c)] ELSE q
   /\ Un(<<comms, par, ackSelf, ackKids, job, inSearch, search, bestCnt, nGo, nBest, nDone, mainJob, quitting, sess>>)

TRecv ==
   /\ Ev("Recv")
   /\ LET o == Tr[l].o  c == <<Tr[l].a, Tr[l].b>>
          ok == o \in comms /\ q[o] # <<>> /\ Head(q[o]) = c
      IN /\ Chk("Design:MailboxFifo", ok, <<o, c, IF o \in comms THEN q[o] ELSE <<>> >>)
         /\ q' = IF ok THEN [q EXCEPT ![o] = Tail(@)] ELSE q
   /\ Un(<<comms, par, ackSelf, ackKids, job, inSearch, search, bestCnt, nGo, nBest, nDone, mainJob, quitting, sess>>)

TStopSent ==
   /\ Ev("StopSent")
   /\ LET o == Tr[l].o IN
      /\ ackSelf' = [ackSelf EXCEPT ![o] = TRUE]
      /\ ackKids' = [ackKids EXCEPT ![o] = Tr[l].a]
      /\ Chk("Design:KidCount", Tr[l].a = Cardinality({ c \in comms : par[c] = o }), <<o, Tr[l].a>>)
   /\ Un(<<comms, par, q, job, inSearch, search, bestCnt, nGo, nBest, nDone, mainJob, quitting, sess>>)

TStopAckCall ==
   /\ Ev("StopAckCall")
   /\ LET o == Tr[l].o  child == Tr[l].a = 1 IN
      /\ Chk("Design:AckSelfFlag", (Tr[l].b = 1) = ackSelf[o], <<o, Tr[l].b, ackSelf[o]>>)
      /\ IF child
         THEN /\ ackKids' = [ackKids EXCEPT ![o] = @ - 1]
              /\ Chk("AckCountersNonNegative", ackKids[o] - 1 >= 0, <<o, ackKids[o] - 1>>)
              /\ Un(ackSelf)
         ELSE /\ ackSelf' = [ackSelf EXCEPT ![o] = FALSE] /\ Un(ackKids)
   /\ Un(<<comms, par, q, job, inSearch, search, bestCnt, nGo, nBest, nDone, mainJob, quitting, sess>>)

TWJob == /\ Ev("WJob") /\ job' = [job EXCEPT ![Tr[l].o] = Tr[l].a]
         /\ Un(<<comms, par, q, ackSelf, ackKids, inSearch, search, bestCnt, nGo, nBest, nDone, mainJob, quitting, sess>>)
TWSearch ==
   /\ (Ev("WSearchBegin") \/ Ev("WSearchEnd"))
   /\ inSearch' = [inSearch EXCEPT ![Tr[l].o] = (Tr[l].e = "WSearchBegin")]
   /\ Chk("HelperSearchesOnlyDuringASearch", Tr[l].e = "WSearchBegin" => search, Tr[l].o)
   /\ Un(<<comms, par, q, ackSelf, ackKids, job, search, bestCnt, nGo, nBest, nDone, mainJob, quitting, sess>>)

TGo == /\ Ev("Go")
       /\ Chk("NoSearchOverlap", ~search, nGo)
       /\ Chk("QuiescentAtStart", Quiescent, <<job, ackKids, ackSelf>>)
       /\ search' = TRUE /\ bestCnt' = 0 /\ nGo' = nGo + 1 /\ mainJob' = 0
       /\ Un(<<comms, par, q, ackSelf, ackKids, job, inSearch, nBest, nDone, quitting, sess>>)
TBest == /\ Ev("Best")
         /\ Chk("ExactlyOneBest", search /\ bestCnt = 0, <<nGo, bestCnt>>)
         /\ Chk("BestOnlyWhenReleased", Tr[l].a = 0 /\ Tr[l].b = 0, <<"ponder", Tr[l].a, "infinite", Tr[l].b>>)
         /\ bestCnt' = bestCnt + 1 /\ nBest' = nBest + 1
         /\ Un(<<comms, par, q, ackSelf, ackKids, job, inSearch, search, nGo, nDone, mainJob, quitting, sess>>)
TDone == /\ Ev("Done")
         /\ Chk("ExactlyOneBest", search /\ bestCnt = 1, <<nGo, bestCnt>>)
         /\ Chk("QuiescentAtDone", Quiescent, <<"job", job, "inSearch", inSearch, "ackKids", ackKids, "ackSelf", ackSelf, "q", q>>)
         /\ search' = FALSE /\ nDone' = nDone + 1
         /\ Un(<<comms, par, q, ackSelf, ackKids, job, inSearch, bestCnt, nGo, nBest, mainJob, quitting, sess>>)
TNewJob == /\ Ev("NewJob") /\ mainJob' = Tr[l].a
           /\ Chk("JobIdsIncrease", Tr[l].a = mainJob + 1, <<mainJob, Tr[l].a>>)
           /\ Un(<<comms, par, q, ackSelf, ackKids, job, inSearch, search, bestCnt, nGo, nBest, nDone, quitting, sess>>)
TResultSeen == /\ Ev("ResultSeen")
               /\ Chk("ResultOnlyForCurrentJob", Tr[l].a <= mainJob /\ Tr[l].b = mainJob, <<Tr[l].a, Tr[l].b, mainJob>>)
               /\ Un(vars)
TQuit == Ev("Quit") /\ quitting' = TRUE /\ Un(<<comms, par, q, ackSelf, ackKids, job, inSearch, search, bestCnt, nGo, nBest, nDone, mainJob, sess>>)
TOther == /\ \E e \in {"Notify", "WaitRet", "QuitSent", "QuitAckCall", "OptPending", "OptsSwap", "PonderHit", "StopReq", "StopSet", "Limits", "LimitsPH", "Meta"} : Ev(e)
          /\ Un(vars)
(* ---- C05 session contract on the same traces ---- *)
TCmd == /\ Ev("Cmd")
        /\ Chk("ReadyokBeforeNextCommand", sess.ready = 0, Tr[l].txt)
        /\ sess' = IF Tr[l].cmd0 = "isready" THEN [sess EXCEPT !.ready = 1] ELSE sess
        /\ Un(<<comms, par, q, ackSelf, ackKids, job, inSearch, search, bestCnt, nGo, nBest, nDone, mainJob, quitting>>)
TReadyOk == /\ Ev("ReadyOk")
            /\ Chk("ReadyokOnlyForIsready", sess.ready = 1, sess)
            /\ sess' = [sess EXCEPT !.ready = 0]
            /\ Un(<<comms, par, q, ackSelf, ackKids, job, inSearch, search, bestCnt, nGo, nBest, nDone, mainJob, quitting>>)
TInfo == /\ Ev("Info")
         /\ Chk("NoSearchOutputOutsideASearch", search /\ sess.inDo /\ bestCnt = 0, <<"search", search, "best", bestCnt>>)
         /\ Un(vars)
TBestOut == /\ Ev("BestOut")
            /\ Chk("BestmoveLineOncePerSearch", search /\ bestCnt = 1 /\ sess.outs = nBest - 1, <<bestCnt, sess.outs, nBest>>)
            /\ sess' = [sess EXCEPT !.outs = @ + 1]
            /\ Un(<<comms, par, q, ackSelf, ackKids, job, inSearch, search, bestCnt, nGo, nBest, nDone, mainJob, quitting>>)
TDoSearch == /\ (Ev("SearchBegin") \/ Ev("SearchEnd"))
             /\ Chk("SearchRunsOnlyWhenPublished", search, Tr[l].e)
             /\ sess' = [sess EXCEPT !.inDo = (Tr[l].e = "SearchBegin")]
             /\ Un(<<comms, par, q, ackSelf, ackKids, job, inSearch, search, bestCnt, nGo, nBest, nDone, mainJob, quitting>>)
TParamSet == /\ Ev("ParamSet")
             /\ Chk("OptionsAppliedOnlyBetweenSearches", ~sess.inDo, Tr[l].a)
             /\ Un(vars)

\* end-of-run record written by the driver: every go got its bestmove and the engine went idle again
TEnd == /\ Ev("End")
        /\ Chk("EverySearchAnswered", nGo = nBest /\ nGo = nDone /\ ~search /\ sess.outs = nBest, <<nGo, nBest, nDone, sess.outs>>)
        /\ Chk("EveryIsreadyAnswered", sess.ready = 0, sess)
        /\ Un(vars)

\* several executions are concatenated in one file: Reset re-initialises the reconstructed state
TReset == /\ Ev("Reset") /\ comms' = {} /\ par' = <<>> /\ q' = <<>> /\ ackSelf' = <<>> /\ ackKids' = <<>> /\ job' = <<>> /\ inSearch' = <<>>
          /\ search' = FALSE /\ bestCnt' = 0 /\ nGo' = 0 /\ nBest' = 0 /\ nDone' = 0 /\ mainJob' = 0 /\ quitting' = FALSE
          /\ sess' = [inDo |-> FALSE, ready |-> 0, outs |-> 0]

TInit == /\ l = 1 /\ comms = {} /\ par = <<>> /\ q = <<>> /\ ackSelf = <<>> /\ ackKids = <<>> /\ job = <<>> /\ inSearch = <<>>
         /\ search = FALSE /\ bestCnt = 0 /\ nGo = 0 /\ nBest = 0 /\ nDone = 0 /\ mainJob = 0 /\ quitting = FALSE
         /\ sess = [inDo |-> FALSE, ready |-> 0, outs |-> 0] /\ pend = <<>> /\ optFin = TRUE /\ hold = FALSE /\ pendHold = FALSE
TResultFor == /\ Ev("ResultFor") /\ Un(vars)
TNext0 == TResultFor \/ TReg \/ TSend \/ TRecv \/ TStopSent \/ TStopAckCall \/ TWJob \/ TWSearch \/ TGo \/ TBest \/ TDone \/ TNewJob \/ TResultSeen
         \/ TQuit \/ TOther \/ TEnd \/ TReset \/ TUnreg \/ TCmd \/ TReadyOk \/ TInfo \/ TBestOut \/ TDoSearch \/ TParamSet
TNext == /\ TNext0
         /\ pend' = IF Tr[l].e = "ResultFor" THEN Put(pend, Tr[l].t, Tr[l].a) ELSE IF Tr[l].e = "Reset" THEN <<>> ELSE pend
         \* A batch of options is pending from OptPending until the engine thread has taken it (OptsSwap with a > 0), applied all of
         \* it (ParamSet ...) and found nothing more to take (OptsSwap with a = 0).  stopThread()/waitReady() wait for that, so a
         \* search is never set up (Go) while options are pending or half applied.
         /\ optFin' = IF Tr[l].e = "OptPending" THEN FALSE ELSE IF Tr[l].e = "OptsSwap" THEN Tr[l].a = 0
                       ELSE IF Tr[l].e = "Reset" THEN TRUE ELSE optFin
         /\ (Tr[l].e = "Go") => Chk("OptionsAppliedBeforeSearchStarts", optFin, <<"go number", nGo + 1>>)
         \* What the COMMAND asked for decides whether the answer must be withheld - not the flags the engine derived from it: a 'go'
         \* whose sub-commands contain 'infinite' or 'ponder' starts a search (Go) that may only answer (Best) after a release:
         \* stopThread() (StopReq: 'stop', the next 'go', 'quit', end of input) or 'ponderhit' (PonderHit).
         /\ pendHold' = IF Tr[l].e = "Cmd" /\ Tr[l].cmd0 = "go" THEN Tr[l].hold = 1 ELSE IF Tr[l].e = "Reset" THEN FALSE ELSE pendHold
         /\ hold' = IF Tr[l].e = "Go" THEN pendHold ELSE IF Tr[l].e \in {"StopReq", "PonderHit", "Reset"} THEN FALSE ELSE hold
         /\ (Tr[l].e = "Best") => Chk("AnswerHeldUntilReleased", ~hold, <<"go number", nGo>>)
Accepted == TLCGet("stats").diameter - 1 = Len(Tr) \/ (PrintT(<<"REJECTED_AT", TLCGet("stats").diameter>>) /\ FALSE)
=============================================================================
