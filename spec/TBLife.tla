-------------------------------- MODULE TBLife --------------------------------
(***************************************************************************)
(* Life cycle of the on-demand endgame table that lives in the top 5 MB of *)
(* the transposition table (TranspositionTable::updateTB / clear / reSize, *)
(* lib/texellib/transpositionTable.cpp:84-90, 312-366).  One action per    *)
(* call; the reserved region is modelled by what it holds.                 *)
(*                                                                         *)
(*   res      class of the table that answers probeDTM, or "none" (tbGen)  *)
(*   reduced  usedSize < tableSize: hashing is confined below the region   *)
(*   cnt      notUsedCnt                                                   *)
(*   big      the table is large enough to host a tablebase (>= 7 MB)      *)
(*   region   what the reserved bytes hold: "hash", a class, or "partial"  *)
(*   streak   history: unsuitable roots in a row since the table was used  *)
(*                                                                         *)
(* Deliberate deviations of the code from the tidy design, modelled as     *)
(* they are: an aborted generation drops the handle but leaves `reduced`   *)
(* as it was (the region stays closed to hashing until the next clear() or *)
(* generation when an older table had been resident); a root with too      *)
(* little time keeps an older table of ANOTHER class resident.             *)
(***************************************************************************)
EXTENDS Naturals
CONSTANTS Classes, DropAt,       \* DropAt = 4: the test is notUsedCnt++ > 3
          ResetOnAbort,          \* TRUE = the code (tbGen.reset() after a failed generate); FALSE = defect switch
          ClearRestoresSize      \* TRUE = the code (clear() calls setUsedSize(tableSize)); FALSE = defect switch
VARIABLES res, reduced, cnt, big, region, streak, last      \* last: history, name of the last call
svars == <<res, reduced, cnt, big, region, streak>>
vars == <<svars, last>>

Init == res = "none" /\ reduced = FALSE /\ cnt = 0 /\ big \in BOOLEAN /\ region = "hash" /\ streak = 0 /\ last = "init"

\* updateTB() with a root of more than four men or with pawns
Unsuitable ==
   /\ IF res # "none" /\ cnt >= DropAt
         THEN res' = "none" /\ reduced' = FALSE /\ cnt' = 0
         ELSE /\ res' = res /\ reduced' = reduced
              /\ cnt' = IF res # "none" THEN cnt + 1 ELSE cnt
   /\ streak' = IF res # "none" THEN streak + 1 ELSE streak
   /\ UNCHANGED <<big, region>>

\* updateTB() with a suitable root that the resident table already answers
Hit(c) == res = c /\ cnt' = 0 /\ streak' = 0 /\ UNCHANGED <<res, reduced, big, region>>

\* suitable root, no table for it, but the search has less time than a generation needs, or the hash table is too small
Declined(c) == res # c /\ UNCHANGED svars

\* suitable root, generation runs to completion (it writes the region whether or not hashing was confined before)
Generate(c) ==
   /\ res # c /\ big
   /\ res' = c /\ reduced' = TRUE /\ cnt' = 0 /\ region' = c /\ streak' = 0 /\ UNCHANGED big

\* suitable root, generation started and was stopped (stop command / time ran out) after it had written part of the region
Aborted(c) ==
   /\ res # c /\ big
   /\ res' = IF ResetOnAbort THEN "none" ELSE c
   /\ region' = "partial" /\ UNCHANGED <<reduced, cnt, big, streak>>

\* clear(): Clear Hash, ucinewgame
Clear ==
   /\ res' = "none" /\ cnt' = 0 /\ region' = "hash" /\ streak' = 0
   /\ reduced' = IF ClearRestoresSize THEN FALSE ELSE reduced
   /\ UNCHANGED big

\* reSize() to a different size (same size: nothing happens)
Resize(b) == b # big /\ big' = b /\ res' = "none" /\ cnt' = 0 /\ region' = "hash" /\ reduced' = FALSE /\ streak' = 0

\* stores and generation refreshes of searches: they reach the region exactly when hashing is not confined
Traffic == region' = (IF reduced THEN region ELSE "hash") /\ UNCHANGED <<res, reduced, cnt, big, streak>>

L(a, n) == a /\ last' = n
Next == L(Unsuitable, "unsuitable") \/ L(Clear, "clear") \/ L(Traffic, "traffic") \/ (\E b \in BOOLEAN : L(Resize(b), "resize"))
        \/ \E c \in Classes : L(Hit(c), "hit") \/ L(Declined(c), "declined") \/ L(Generate(c), "generate") \/ L(Aborted(c), "aborted")
Spec == Init /\ [][Next]_vars

TypeOK == res \in Classes \cup {"none"} /\ reduced \in BOOLEAN /\ cnt \in 0..DropAt /\ big \in BOOLEAN
          /\ region \in Classes \cup {"hash", "partial"}

\* what probeDTM answers from is a complete table of the class it claims, out of reach of hash stores (C08, C12, C13)
ResidentIntact == res # "none" => reduced /\ region = res /\ big
\* a half-built table is never probed (C12)
PartialNeverProbed == region = "partial" => res = "none"
\* Clear Hash / new size leave nothing behind: full-size hashing, no table (C14) - as an action property
FreshAfterClear == last \in {"clear", "resize"} => ~reduced /\ res = "none" /\ region = "hash"
\* a table that is not used is dropped with the (DropAt+1)-th unsuitable root in a row, not earlier and not later
AgedOut == (streak > DropAt => res = "none") /\ (res = "none" \/ streak <= DropAt)
=============================================================================
