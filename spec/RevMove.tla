------------------------------ MODULE RevMove ------------------------------
(***************************************************************************)
(* C15: the predecessor relation of the rule book and what an un-move list *)
(* must contain.  An un-move is <<from, to, promo, captured, castle, ep>>  *)
(* (texel's UnMove = Move + UndoInfo with the half-move clock zeroed).     *)
(***************************************************************************)
EXTENDS Chess

\* positions equal up to the move counters (UnMove zeroes the half-move clock by contract)
SamePlace(a, b) == a.b = b.b /\ a.w = b.w /\ a.c = b.c /\ a.e = b.e

\* the un-move that restores P from Q = Play(P, m), for both generator modes
ExpectedUnMove(P, m, all) ==
   LET isEp == IsEpCapture(P.b, P.e, m) IN
   << m.from, m.to, m.promo,
      IF isEp THEN EMPTY ELSE P.b[m.to],
      P.c,
      IF all THEN P.e ELSE (IF isEp THEN P.e ELSE NoSq) >>

\* RevMoveGen works on positions in the FIDE convention (what readFEN returns): an ep square is present
\* only if an en-passant capture is legal.  Pred(Q) restricted to one candidate <<P, m>>:
IsPredecessor(P, m, Q) == IsLegalMove(P, m) /\ SamePlace(Fixup(Play(P, m)), Q)
Normalised(p) == p.e = FideEp(p)
\* an ep square can only stem from a double push: the pawn's origin square must be empty now
EpPlausible(p) == p.e = NoSq \/ p.b[IF p.w THEN p.e + 8 ELSE p.e - 8] = EMPTY
=============================================================================
