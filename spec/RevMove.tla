------------------------------ MODULE RevMove ------------------------------
(***************************************************************************)
(* C15: the predecessor relation of the rule book and what an un-move list *)
(* must contain.  An un-move is <<from, to, promo, captured, castle, ep>>  *)
(* (texel's UnMove = Move + UndoInfo with the half-move clock zeroed).     *)
(***************************************************************************)
EXTENDS Chess

\* positions equal up to the move counters (UnMove zeroes the half-move clock by contract)
SamePlace(a, b) == a.b = b.b /\ a.w = b.w /\ a.c = b.c /\ a.e = b.e

\* the un-move that restores P from Q = Play(P, m), for both generator modes
ExpectedUnMove(P, m, all) ==
   LET isEp == IsEpCapture(P.b, P.e, m) IN
   << m.from, m.to, m.promo,
      IF isEp THEN EMPTY ELSE P.b[m.to],
      P.c,
      IF all THEN P.e ELSE (IF isEp THEN P.e ELSE NoSq) >>

\* Pred(Q) restricted to one candidate: <<P, m>> is a predecessor of Q
IsPredecessor(P, m, Q) == IsLegalMove(P, m) /\ SamePlace(Play(P, m), Q)
=============================================================================
