----------------------------- MODULE Tr_Session -----------------------------
(***************************************************************************)
(* C14 trace validation: process A replays a whole prior session, issues   *)
(* Clear Hash and a probe search; process B (fresh) runs only the probe,   *)
(* twice.  The specification decides when the results must be equal.       *)
(***************************************************************************)
EXTENDS Session, Json, IOUtils
CONSTANT DIAG
VARIABLES l, sA, sB, resA, resB
Tr == ndJsonDeserialize(IOEnv.TRACE)
Chk(name, cond, info) == IF cond THEN TRUE ELSE (DIAG /\ PrintT(<<"MISMATCH", name, l, info>>))
Ev(e) == l <= Len(Tr) /\ Tr[l].e = e /\ l' = l + 1
NoRes == [best |-> "", score |-> "", pv |-> "", nodes |-> -1]

TMeta == Ev("Meta") /\ UNCHANGED <<sA, sB, resA, resB>>
TSess == Ev("Sess") /\ sA' = InitState /\ sB' = InitState /\ resA' = NoRes /\ resB' = NoRes

Step(s, r) ==
   IF r.kind = "search" THEN AfterSearch(s, r.tb)
   ELSE IF r.kind = "clearhash" \/ r.kind = "newgame" THEN AfterClearHash(s)
   ELSE IF r.kind = "setoption" THEN (IF r.name = "Hash" THEN AfterHashResize(SetOpt(s, r.name, r.value, r.isDefault))
                                      ELSE SetOpt(s, r.name, r.value, r.isDefault))
   ELSE s

TCmd == /\ Ev("Cmd")
        /\ IF Tr[l].proc = "A" THEN sA' = Step(sA, Tr[l]) /\ UNCHANGED sB ELSE sB' = Step(sB, Tr[l]) /\ UNCHANGED sA
        /\ UNCHANGED <<resA, resB>>

Res(r) == [best |-> r.best, score |-> r.score, pv |-> r.pv, nodes |-> r.nodes]

TProbe ==
   /\ Ev("Probe")
   /\ LET r == Tr[l] IN
      IF r.proc = "A" THEN
         /\ Chk("ProbeStateIsFresh", Fresh(sA), sA)            \* driver sanity: the session ends with Clear Hash
         /\ resA' = Res(r) /\ UNCHANGED <<sA, sB, resB>>
      ELSE IF r.proc = "B" THEN
         /\ Chk("FreshAfterClearHash", (Fresh(sA) /\ Fresh(sB) /\ SameOptions(sA, sB)) => Res(r) = resA,
                <<r.cmd, "afterClearHash", resA, "fresh", Res(r)>>)
         /\ resB' = Res(r) /\ UNCHANGED <<sA, sB, resA>>
      ELSE
         /\ Chk("SameStateSameResult", Res(r) = resB, <<r.cmd, resB, Res(r)>>)
         /\ UNCHANGED <<sA, sB, resA, resB>>

TInit == l = 1 /\ sA = InitState /\ sB = InitState /\ resA = NoRes /\ resB = NoRes
TNext == TMeta \/ TSess \/ TCmd \/ TProbe
Accepted == TLCGet("stats").diameter - 1 = Len(Tr) \/ (PrintT(<<"REJECTED_AT", TLCGet("stats").diameter>>) /\ FALSE)
=============================================================================
