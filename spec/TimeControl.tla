---------------------------- MODULE TimeControl ----------------------------
(***************************************************************************)
(* C06 design model.  Time moves with searched nodes; the search consults  *)
(* its limits only at polls, at most K ticks apart.  The limits handed to  *)
(* the search satisfy the envelope 1 <= lo <= hi <= Budget (or are absent  *)
(* while pondering / infinite; a stop request installs (0,0); ponderhit    *)
(* installs the envelope limits).  At a poll the search stops iff the      *)
(* elapsed time has reached the applicable limit, which lies between lo    *)
(* and hi (soft limit stretched by the hardness factor, never beyond hi).  *)
(* Checked: Deadline (bestmove no later than tStart + hi + K), prompt      *)
(* reaction to stop and to ponderhit with exhausted limits.                *)
(***************************************************************************)
EXTENDS Integers
CONSTANTS K, Budget, Horizon
VARIABLES now, tStart, lo, hi, mode, sincePoll, bestAt, stopAt, hitAt
vars == <<now, tStart, lo, hi, mode, sincePoll, bestAt, stopAt, hitAt>>
\* mode: "idle", "timed", "ponder" (no limits), "stopped" (limits 0,0), "done"
Envelope(a, b) == 1 <= a /\ a <= b /\ b <= Budget
Init == /\ now = 0 /\ tStart = 0 /\ lo = -1 /\ hi = -1 /\ mode = "idle" /\ sincePoll = 0 /\ bestAt = -1 /\ stopAt = -1 /\ hitAt = -1
GoTimed == /\ mode = "idle" /\ \E a \in 1..Budget, b \in 1..Budget : Envelope(a, b) /\ lo' = a /\ hi' = b
           /\ mode' = "timed" /\ tStart' = now /\ sincePoll' = 0 /\ UNCHANGED <<now, bestAt, stopAt, hitAt>>
GoPonder == /\ mode = "idle" /\ \E a \in 1..Budget, b \in 1..Budget : Envelope(a, b) /\ lo' = a /\ hi' = b
            /\ mode' = "ponder" /\ tStart' = now /\ sincePoll' = 0 /\ UNCHANGED <<now, bestAt, stopAt, hitAt>>
PonderHit == /\ mode = "ponder" /\ mode' = "timed" /\ hitAt' = now /\ UNCHANGED <<now, tStart, lo, hi, sincePoll, bestAt, stopAt>>
Stop == /\ mode \in {"timed", "ponder"} /\ mode' = "stopped" /\ stopAt' = now /\ UNCHANGED <<now, tStart, lo, hi, sincePoll, bestAt, hitAt>>
Tick == /\ mode \in {"timed", "ponder", "stopped"} /\ now < Horizon /\ sincePoll < K
        /\ now' = now + 1 /\ sincePoll' = sincePoll + 1 /\ UNCHANGED <<tStart, lo, hi, mode, bestAt, stopAt, hitAt>>
\* a poll may happen at any time, and must happen once K ticks have passed (Tick is disabled then)
Poll == /\ mode \in {"timed", "ponder", "stopped"}
        /\ sincePoll' = 0
        /\ IF mode = "stopped" THEN mode' = "done" /\ bestAt' = now
           ELSE IF mode = "ponder" THEN UNCHANGED <<mode, bestAt>>
           ELSE \E lim \in lo..hi :
                   IF now - tStart >= lim THEN mode' = "done" /\ bestAt' = now ELSE UNCHANGED <<mode, bestAt>>
        /\ UNCHANGED <<now, tStart, lo, hi, stopAt, hitAt>>
\* the search may also finish by itself
Finish == /\ mode = "timed" /\ mode' = "done" /\ bestAt' = now /\ UNCHANGED <<now, tStart, lo, hi, sincePoll, stopAt, hitAt>>
Next == GoTimed \/ GoPonder \/ PonderHit \/ Stop \/ Tick \/ Poll \/ Finish
Spec == Init /\ [][Next]_vars
Deadline == (mode = "done" /\ stopAt = -1 /\ hitAt = -1) => bestAt - tStart <= hi + K
AfterStop == (mode = "done" /\ stopAt # -1) => bestAt - stopAt <= K
AfterPonderHit == (mode = "done" /\ hitAt # -1 /\ stopAt = -1) => bestAt <= (IF hitAt - tStart >= hi THEN hitAt ELSE tStart + hi) + K
\* without the envelope the deadline is meaningless: hi beyond the budget breaks "before the clock runs out"
WithinBudget == mode \in {"timed", "done"} => hi <= Budget
=============================================================================
