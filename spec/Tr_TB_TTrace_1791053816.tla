---- MODULE Tr_TB_TTrace_1791053816 ----
EXTENDS Sequences, TLCExt, Toolbox, Naturals, TLC, Tr_TB

_expression ==
    LET Tr_TB_TEExpression == INSTANCE Tr_TB_TEExpression
    IN Tr_TB_TEExpression!expression
----

_trace ==
    LET Tr_TB_TETrace == INSTANCE Tr_TB_TETrace
    IN Tr_TB_TETrace!trace
----

_inv ==
    ~(
        TLCGet("level") = Len(_TETrace)
        /\
        clsBoard = (<<1, 0, 1, 0, 0, 0, 1, 0, 0, 0, 1, 0>>)
        /\
        genOk = (TRUE)
        /\
        l = (2)
    )
----

_init ==
    /\ l = _TETrace[1].l
    /\ clsBoard = _TETrace[1].clsBoard
    /\ genOk = _TETrace[1].genOk
----

_next ==
    /\ \E i,j \in DOMAIN _TETrace:
        /\ \/ /\ j = i + 1
              /\ i = TLCGet("level")
        /\ l  = _TETrace[i].l
        /\ l' = _TETrace[j].l
        /\ clsBoard  = _TETrace[i].clsBoard
        /\ clsBoard' = _TETrace[j].clsBoard
        /\ genOk  = _TETrace[i].genOk
        /\ genOk' = _TETrace[j].genOk

\* Uncomment the ASSUME below to write the states of the error trace
\* to the given file in Json format. Note that you can pass any tuple
\* to `JsonSerialize`. For example, a sub-sequence of _TETrace.
    \* ASSUME
    \*     LET J == INSTANCE Json
    \*         IN J!JsonSerialize("Tr_TB_TTrace_1791053816.json", _TETrace)

=============================================================================

 Note that you can extract this module `Tr_TB_TEExpression`
  to a dedicated file to reuse `expression` (the module in the 
  dedicated `Tr_TB_TEExpression.tla` file takes precedence 
  over the module `Tr_TB_TEExpression` below).

---- MODULE Tr_TB_TEExpression ----
EXTENDS Sequences, TLCExt, Toolbox, Naturals, TLC, Tr_TB

expression == 
    [
        \* To hide variables of the `Tr_TB` spec from the error trace,
        \* remove the variables below.  The trace will be written in the order
        \* of the fields of this record.
        l |-> l
        ,clsBoard |-> clsBoard
        ,genOk |-> genOk
        
        \* Put additional constant-, state-, and action-level expressions here:
        \* ,_stateNumber |-> _TEPosition
        \* ,_lUnchanged |-> l = l'
        
        \* Format the `l` variable as Json value.
        \* ,_lJson |->
        \*     LET J == INSTANCE Json
        \*     IN J!ToJson(l)
        
        \* Lastly, you may build expressions over arbitrary sets of states by
        \* leveraging the _TETrace operator.  For example, this is how to
        \* count the number of times a spec variable changed up to the current
        \* state in the trace.
        \* ,_lModCount |->
        \*     LET F[s \in DOMAIN _TETrace] ==
        \*         IF s = 1 THEN 0
        \*         ELSE IF _TETrace[s].l # _TETrace[s-1].l
        \*             THEN 1 + F[s-1] ELSE F[s-1]
        \*     IN F[_TEPosition - 1]
    ]

=============================================================================



Parsing and semantic processing can take forever if the trace below is long.
 In this case, it is advised to uncomment the module below to deserialize the
 trace from a generated binary file.

\*
\*---- MODULE Tr_TB_TETrace ----
\*EXTENDS IOUtils, TLC, Tr_TB
\*
\*trace == IODeserialize("Tr_TB_TTrace_1791053816.bin", TRUE)
\*
\*=============================================================================
\*

---- MODULE Tr_TB_TETrace ----
EXTENDS TLC, Tr_TB

trace == 
    <<
    ([clsBoard |-> <<0, 0, 0, 0, 0, 0, 0, 0, 0, 0, 0, 0>>,genOk |-> TRUE,l |-> 1]),
    ([clsBoard |-> <<1, 0, 1, 0, 0, 0, 1, 0, 0, 0, 1, 0>>,genOk |-> TRUE,l |-> 2])
    >>
----


=============================================================================

---- CONFIG Tr_TB_TTrace_1791053816 ----
CONSTANTS
    DIAG = TRUE

INVARIANT
    _inv

CHECK_DEADLOCK
    \* CHECK_DEADLOCK off because of PROPERTY or INVARIANT above.
    FALSE

INIT
    _init

NEXT
    _next

CONSTANT
    _TETrace <- _trace

ALIAS
    _expression
=============================================================================
\* Generated on Sat Oct 03 18:56:57 UTC 2026