------------------------------- MODULE BookOps -------------------------------
(***************************************************************************)
(* C19, behaviour generation.  The inputs of the book-builder graph are,   *)
(* per node, the stored search result and the pending mark; every other    *)
(* field is defined from them by the equations of BookGraph.tla.  This     *)
(* module is the state machine of the operations that change the inputs    *)
(* on a FIXED small graph shape (the shape itself lives in the harness:    *)
(* the nodes are positions after fixed opening moves):                     *)
(*   Store(n, v)  BookNode::setSearchResult - also with the value the node *)
(*                already has (Book::extendBook re-stores results)         *)
(*   Toggle(n)    Book::addPending / Book::removePending                   *)
(* TLC enumerates the complete state graph; every transition is printed    *)
(* once as a JSON line and tools/checks/c19.py turns each one into a       *)
(* scenario (shortest operation path from the initial state to the source  *)
(* state, then the transition) that harness/h_bookexh.cpp replays on a     *)
(* fresh BookBuild::Book; the graph after the last operation is dumped and *)
(* validated against BookGraph!FixedPoint by Tr_BookGraph.  A propagation  *)
(* shortcut that is wrong for one combination of old and new values is     *)
(* therefore hit if that combination exists in the value alphabet,         *)
(* independently of how unlikely a random walk is to produce it.           *)
(***************************************************************************)
EXTENDS Integers, Sequences, TLC, Json
CONSTANTS Nodes,        \* sequence of node names
          Values,       \* sequence (same length): set of value names a search may store in that node
          PendNodes     \* set of node names whose pending mark is toggled
VARIABLES val, pend
vars == <<val, pend>>
NodeSet == { Nodes[i] : i \in 1..Len(Nodes) }
ValuesOf(n) == Values[CHOOSE i \in 1..Len(Nodes) : Nodes[i] = n]
Init == val = [n \in NodeSet |-> "INV"] /\ pend = [n \in PendNodes |-> FALSE]
Emit(op, n, v) == PrintT(ToJson([src |-> [val |-> val, pend |-> pend], op |-> op, n |-> n, v |-> v]))
Store(n, v) == /\ val' = [val EXCEPT ![n] = v] /\ UNCHANGED pend /\ Emit("S", n, v)
Toggle(n) == /\ pend' = [pend EXCEPT ![n] = ~@] /\ UNCHANGED val /\ Emit("T", n, "")
Next == (\E n \in NodeSet : \E v \in ValuesOf(n) : Store(n, v)) \/ (\E n \in PendNodes : Toggle(n))
Spec == Init /\ [][Next]_vars
TypeOK == /\ \A n \in NodeSet : val[n] = "INV" \/ val[n] \in ValuesOf(n)
          /\ \A n \in PendNodes : pend[n] \in BOOLEAN
=============================================================================
