CONSTANTS Classes = {"KQK", "KRK"}
  DropAt = 4
  ResetOnAbort = TRUE
  ClearRestoresSize = FALSE
SPECIFICATION Spec
INVARIANTS TypeOK ResidentIntact PartialNeverProbed FreshAfterClear AgedOut
