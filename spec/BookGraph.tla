------------------------------ MODULE BookGraph ------------------------------
(***************************************************************************)
(* C19: the defining equations of the book-builder graph                   *)
(* (lib/texelutillib/bookbuild.hpp, class BookNode).  A graph is a         *)
(* sequence of node records (index = node id)                              *)
(*   [depth, search, best, nega, expW, expB, errW, errB, pend, root,       *)
(*    kids : Seq(<<move, id>>), pars : Seq(<<move, id>>)]                  *)
(* FixedPoint(g) says that every node satisfies its equations:             *)
(*   links       child/parent references are mutually consistent           *)
(*   depth       shortest distance from the root                           *)
(*   negamax     max of the own search score (unless a child covers that   *)
(*               move) and the negated child scores, INVALID dominating    *)
(*   expansion   cost equations for both book players                      *)
(*   path error  smallest accumulated error over all parents               *)
(* Special scores are the implementation's: IGNORE < INVALID < real scores.*)
(***************************************************************************)
EXTENDS Integers, Sequences, FiniteSets, TLC
CONSTANTS DepthCost, OwnCost, OtherCost
IGNORE == -32766      \* SearchConst::UNKNOWN_SCORE + 1
INVALID == -32765     \* SearchConst::UNKNOWN_SCORE + 2
MATE0 == 32000
IsWin(s) == s > MATE0 \div 2
IsLose(s) == s < -(MATE0 \div 2)
Neg(s) == IF s = IGNORE \/ s = INVALID THEN s ELSE IF IsWin(s) THEN -(s - 1) ELSE IF IsLose(s) THEN -(s + 1) ELSE -s
MaxOf(S) == CHOOSE x \in S : \A y \in S : y <= x
MinOf(S) == CHOOSE x \in S : \A y \in S : x <= y
KidIdx(n) == 1..Len(n.kids)
ParIdx(n) == 1..Len(n.pars)
HasKidFor(n, mv) == \E k \in KidIdx(n) : n.kids[k][1] = mv
Wtm(n) == n.depth % 2 = 0

LinksOK(g) ==
   \A i \in 1..Len(g) :
      /\ \A k \in KidIdx(g[i]) : LET mv == g[i].kids[k][1]  c == g[i].kids[k][2] IN
            c \in 1..Len(g) /\ \E p \in ParIdx(g[c]) : g[c].pars[p] = <<mv, i>>
      /\ \A p \in ParIdx(g[i]) : LET mv == g[i].pars[p][1]  q == g[i].pars[p][2] IN
            q \in 1..Len(g) /\ \E k \in KidIdx(g[q]) : g[q].kids[k] = <<mv, i>>
      /\ (g[i].root <=> Len(g[i].pars) = 0)

DepthOK(g) == \A i \in 1..Len(g) :
   IF g[i].root THEN g[i].depth = 0
   ELSE g[i].depth = 1 + MinOf({ g[g[i].pars[p][2]].depth : p \in ParIdx(g[i]) })

NegaMaxOf(g, n) ==
   LET covered == \E k \in KidIdx(n) : n.kids[k][1] = n.best /\ g[n.kids[k][2]].nega # INVALID
       base == IF covered THEN IGNORE ELSE n.search
   IN IF base = INVALID THEN INVALID
      ELSE MaxOf({base} \cup { Neg(g[n.kids[k][2]].nega) : k \in KidIdx(n) })
NegaMaxOK(g) == \A i \in 1..Len(g) : g[i].nega = NegaMaxOf(g, g[i])

Exp(n, white) == IF white THEN n.expW ELSE n.expB
ExpansionOf(g, n, white) ==
   LET k1(own) == IF own THEN OwnCost ELSE OtherCost
       ownTerm == IF HasKidFor(n, n.best) THEN -10000 ELSE (n.nega - n.search) * k1(Wtm(n) = white)
       e0 == IF n.pend THEN IGNORE ELSE IF n.search = INVALID THEN INVALID ELSE IF n.search # IGNORE THEN ownTerm ELSE IGNORE
       anyInvalid == \E k \in KidIdx(n) : Exp(g[n.kids[k][2]], white) = INVALID
       e1 == IF anyInvalid THEN INVALID ELSE e0
       childCost(c) == LET me == IF n.nega = INVALID THEN 1000 ELSE n.nega - Neg(c.nega)
                       IN Exp(c, white) + DepthCost + me * k1(Wtm(n) = white)
       cands == (IF e1 = IGNORE THEN {} ELSE {e1})
                \cup { childCost(g[n.kids[k][2]]) : k \in { j \in KidIdx(n) : Exp(g[n.kids[j][2]], white) # IGNORE } }
   IN IF e1 = INVALID THEN INVALID ELSE IF cands = {} THEN IGNORE ELSE MinOf(cands)
ExpansionOK(g) == \A i \in 1..Len(g) : g[i].expW = ExpansionOf(g, g[i], TRUE) /\ g[i].expB = ExpansionOf(g, g[i], FALSE)

PathErrOf(g, n) ==      \* <<errW, errB>>
   IF n.depth = 0 THEN <<0, 0>>
   ELSE LET ok == { p \in ParIdx(n) : LET q == g[n.pars[p][2]] IN
                       q.errW # INVALID /\ q.errB # INVALID /\ n.nega # INVALID /\ q.nega # INVALID }
            delta(q) == q.nega - Neg(n.nega)
            eW(q) == q.errW + (IF n.depth % 2 # 0 THEN delta(q) ELSE 0)
            eB(q) == q.errB + (IF n.depth % 2 = 0 THEN delta(q) ELSE 0)
        IN IF ok = {} THEN <<INVALID, INVALID>>
           ELSE << MinOf({ eW(g[n.pars[p][2]]) : p \in ok }), MinOf({ eB(g[n.pars[p][2]]) : p \in ok }) >>
PathErrOK(g) == \A i \in 1..Len(g) : <<g[i].errW, g[i].errB>> = PathErrOf(g, g[i])

FixedPoint(g) == LinksOK(g) /\ DepthOK(g) /\ NegaMaxOK(g) /\ ExpansionOK(g) /\ PathErrOK(g)
=============================================================================
