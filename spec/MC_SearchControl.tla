-------------------------- MODULE MC_SearchControl --------------------------
EXTENDS SearchControl
H0 == {}
P0 == [h \in H0 |-> "E"]
H1 == {"w1"}
P1 == [h \in H1 |-> "E"]
H2chain == {"w1", "w2"}
P2chain == [h \in H2chain |-> IF h = "w1" THEN "E" ELSE "w1"]
H2flat == {"w1", "w2"}
P2flat == [h \in H2flat |-> "E"]
H3 == {"w1", "w2", "w3"}
P3 == [h \in H3 |-> IF h = "w3" THEN "w1" ELSE "E"]
S_goStopQuit == <<"go", "stop", "quit">>
S_goQuit == <<"go", "quit">>
S_ponder == <<"goponder", "ponderhit", "stop", "quit">>
S_b2b == <<"goinf", "go", "quit">>
S_opts == <<"go", "setopt", "isready", "go", "quit">>
S_live == <<"goinf", "stop", "go", "quit">>
DefectOn == TRUE
Termination == <>[]Terminated
EachGoAnswered == <>[](\A s \in 1..sid : out[s] = 1)
=============================================================================
