------------------------------- MODULE Chess -------------------------------
(***************************************************************************)
(* The rule book.  A declarative definition of chess positions, legal      *)
(* moves, check, mate, stalemate, the en-passant and castling state        *)
(* machine and the move counters, in texel's own numbering (squares 0..63  *)
(* with a1 = 0, pieces 0..12, castle-mask bits A1,H1,A8,H8) so that traces *)
(* recorded from the C++ code need no translation.                         *)
(*                                                                         *)
(* There are no bitboards, no pin shortcuts and no incremental state here: *)
(* Legal(p) is "pseudo-legal and the own king is not attacked afterwards". *)
(* Everything chess-shaped in /verif/spec is phrased over this module.     *)
(*                                                                         *)
(* A position is a record                                                  *)
(*   [b : 0..63 -> 0..12, w : BOOLEAN, c : 0..15, e : -1..63, h : Nat,     *)
(*    f : Nat]   (board, white to move, castle mask, ep square,            *)
(*               half-move clock, full-move counter).                      *)
(* Deliberate deviations of the implementation from FIDE are named         *)
(* operators (ImplEp / FideEp, QuietUnderPromo), never silently absorbed.  *)
(***************************************************************************)
EXTENDS Integers, Sequences, FiniteSets, TLC

Sq == 0..63
X(s) == s % 8
Y(s) == s \div 8
SqOf(x,y) == y*8 + x
OnB(x,y) == x \in 0..7 /\ y \in 0..7
NoSq == -1            \* never 0: square 0 is a1

EMPTY == 0
WK == 1  WQ == 2  WR == 3  WB == 4  WN == 5  WP == 6
BK == 7  BQ == 8  BR == 9  BB == 10 BN == 11 BP == 12
IsW(p) == p \in 1..6
IsB(p) == p \in 7..12
Own(p, w) == IF w THEN p \in 1..6 ELSE p \in 7..12
Kind(p) == IF p > 6 THEN p - 6 ELSE p   \* 1=K 2=Q 3=R 4=B 5=N 6=P
Mk(kind, w) == IF w THEN kind ELSE kind + 6
FlipPiece(p) == IF p = 0 THEN 0 ELSE IF p > 6 THEN p - 6 ELSE p + 6

A1 == 0  E1 == 4  H1 == 7  A8 == 56  E8 == 60  H8 == 63

(* ---------------------------- geometry ---------------------------------- *)
Dirs == << <<1,0>>, <<-1,0>>, <<0,1>>, <<0,-1>>, <<1,1>>, <<1,-1>>, <<-1,1>>, <<-1,-1>> >>
RECURSIVE RayFrom(_,_,_,_)
RayFrom(x,y,dx,dy) == IF OnB(x+dx,y+dy) THEN <<SqOf(x+dx,y+dy)>> \o RayFrom(x+dx,y+dy,dx,dy) ELSE <<>>
Ray == [s \in Sq |-> [d \in 1..8 |-> RayFrom(X(s),Y(s),Dirs[d][1],Dirs[d][2])]]
KnightD == { <<1,2>>, <<2,1>>, <<-1,2>>, <<-2,1>>, <<1,-2>>, <<2,-1>>, <<-1,-2>>, <<-2,-1>> }
KnightT == [s \in Sq |-> { SqOf(X(s)+d[1],Y(s)+d[2]) : d \in {e \in KnightD : OnB(X(s)+e[1],Y(s)+e[2])} }]
KingT == [s \in Sq |-> { SqOf(X(s)+Dirs[d][1],Y(s)+Dirs[d][2]) : d \in {e \in 1..8 : OnB(X(s)+Dirs[e][1],Y(s)+Dirs[e][2])} }]
\* squares from which a pawn of colour w attacks s
PawnAttFrom == [w \in BOOLEAN |-> [s \in Sq |->
    LET dy == IF w THEN -1 ELSE 1 IN
    { SqOf(X(s)+dx, Y(s)+dy) : dx \in {e \in {-1,1} : OnB(X(s)+e, Y(s)+dy)} }]]

\* first occupied square along ray r on board b, NoSq if none
RECURSIVE FirstOccI(_,_,_)
FirstOccI(b, r, i) == IF i > Len(r) THEN NoSq ELSE IF b[r[i]] # EMPTY THEN r[i] ELSE FirstOccI(b, r, i+1)
FirstOcc(b, r) == FirstOccI(b, r, 1)
\* squares reachable along ray: the empty run plus the first occupied square
RECURSIVE RayReachI(_,_,_)
RayReachI(b, r, i) == IF i > Len(r) THEN {} ELSE IF b[r[i]] # EMPTY THEN {r[i]} ELSE {r[i]} \cup RayReachI(b, r, i+1)
RayReach(b, r) == RayReachI(b, r, 1)

(* ------------------------------ attacks --------------------------------- *)
Attacked(b, s, byW) ==
   LET q == Mk(2, byW)  rk == Mk(3, byW)  bi == Mk(4, byW)
   IN \/ \E t \in KnightT[s] : b[t] = Mk(5, byW)
      \/ \E t \in KingT[s] : b[t] = Mk(1, byW)
      \/ \E t \in PawnAttFrom[byW][s] : b[t] = Mk(6, byW)
      \/ \E d \in 1..4 : LET f == FirstOcc(b, Ray[s][d]) IN f # NoSq /\ (b[f] = q \/ b[f] = rk)
      \/ \E d \in 5..8 : LET f == FirstOcc(b, Ray[s][d]) IN f # NoSq /\ (b[f] = q \/ b[f] = bi)

KingSqs(b, w) == {s \in Sq : b[s] = Mk(1, w)}
KingSq(b, w) == CHOOSE s \in Sq : b[s] = Mk(1, w)
InCheckB(b, w) == Attacked(b, KingSq(b, w), ~w)
InCheck(p) == InCheckB(p.b, p.w)

(* ------------------------------- moves ---------------------------------- *)
Mv(f,t,pr) == [from |-> f, to |-> t, promo |-> pr]

SliderMoves(b, s, w, ds) ==
   { Mv(s,t,0) : t \in {u \in UNION {RayReach(b, Ray[s][d]) : d \in ds} : ~Own(b[u], w)} }

PawnMoves(b, s, w, epsq) ==
   LET dy == IF w THEN 1 ELSE -1
       x == X(s)  y == Y(s)
       startRow == IF w THEN 1 ELSE 6
       lastRow == IF w THEN 7 ELSE 0
       promos == IF w THEN {WQ,WR,WB,WN} ELSE {BQ,BR,BB,BN}
       fwd1 == IF OnB(x,y+dy) /\ b[SqOf(x,y+dy)] = EMPTY THEN {SqOf(x,y+dy)} ELSE {}
       fwd2 == IF y = startRow /\ fwd1 # {} /\ b[SqOf(x,y+2*dy)] = EMPTY THEN {SqOf(x,y+2*dy)} ELSE {}
       caps == { SqOf(x+dx,y+dy) : dx \in {e \in {-1,1} : OnB(x+e,y+dy) /\
                      (Own(b[SqOf(x+e,y+dy)], ~w) \/ SqOf(x+e,y+dy) = epsq)} }
       tg == fwd1 \cup fwd2 \cup caps
   IN UNION { IF Y(t) = lastRow THEN {Mv(s,t,pr) : pr \in promos} ELSE {Mv(s,t,0)} : t \in tg }

HasBit(m, bit) == (m \div bit) % 2 = 1

CastleMoves(b, w, cm) ==
   LET k0 == IF w THEN E1 ELSE E8
       hbit == IF w THEN 2 ELSE 8
       abit == IF w THEN 1 ELSE 4
       rk == Mk(3, w)
   IN IF b[k0] # Mk(1, w) THEN {} ELSE
      (IF HasBit(cm, hbit) /\ b[k0+1] = EMPTY /\ b[k0+2] = EMPTY /\ b[k0+3] = rk
           /\ ~Attacked(b,k0,~w) /\ ~Attacked(b,k0+1,~w) THEN {Mv(k0,k0+2,0)} ELSE {})
      \cup
      (IF HasBit(cm, abit) /\ b[k0-1] = EMPTY /\ b[k0-2] = EMPTY /\ b[k0-3] = EMPTY /\ b[k0-4] = rk
           /\ ~Attacked(b,k0,~w) /\ ~Attacked(b,k0-1,~w) THEN {Mv(k0,k0-2,0)} ELSE {})

\* pseudo-legal moves of the piece standing on s (castling belongs to the king)
PieceMovesB(b, w, cm, epsq, s) ==
   LET pc == b[s] k == Kind(pc) IN
   IF ~Own(pc, w) THEN {}
   ELSE IF k = 1 THEN { Mv(s,t,0) : t \in {u \in KingT[s] : ~Own(b[u], w)} } \cup CastleMoves(b, w, cm)
   ELSE IF k = 2 THEN SliderMoves(b, s, w, 1..8)
   ELSE IF k = 3 THEN SliderMoves(b, s, w, 1..4)
   ELSE IF k = 4 THEN SliderMoves(b, s, w, 5..8)
   ELSE IF k = 5 THEN { Mv(s,t,0) : t \in {u \in KnightT[s] : ~Own(b[u], w)} }
   ELSE PawnMoves(b, s, w, epsq)
PseudoB(b, w, cm, epsq) == UNION { PieceMovesB(b, w, cm, epsq, s) : s \in {u \in Sq : b[u] # EMPTY} }
Pseudo(p) == PseudoB(p.b, p.w, p.c, p.e)

IsEpCapture(b, epsq, m) == Kind(b[m.from]) = 6 /\ epsq # NoSq /\ m.to = epsq /\ X(m.from) # X(m.to)
IsCastling(b, m) == Kind(b[m.from]) = 1 /\ (m.to - m.from = 2 \/ m.from - m.to = 2)

\* board after move m (m pseudo-legal on b with ep square epsq)
AfterB(b, epsq, m) ==
   LET pc == b[m.from]
       b1 == [b EXCEPT ![m.from] = EMPTY, ![m.to] = IF m.promo # 0 THEN m.promo ELSE pc]
       b2 == IF IsEpCapture(b, epsq, m) THEN [b1 EXCEPT ![SqOf(X(m.to), Y(m.from))] = EMPTY] ELSE b1
   IN IF IsCastling(b, m) THEN
         IF m.to > m.from THEN [b2 EXCEPT ![m.from+3] = EMPTY, ![m.from+1] = b[m.from+3]]
         ELSE [b2 EXCEPT ![m.from-4] = EMPTY, ![m.from-1] = b[m.from-4]]
      ELSE b2

LegalB(b, w, cm, epsq) == { m \in PseudoB(b, w, cm, epsq) : ~InCheckB(AfterB(b, epsq, m), w) }
Legal(p) == LegalB(p.b, p.w, p.c, p.e)
\* membership test that does not enumerate all moves of the position
IsLegalMove(p, m) == /\ m.from \in Sq /\ m.to \in Sq
                     /\ m \in PieceMovesB(p.b, p.w, p.c, p.e, m.from)
                     /\ ~InCheckB(AfterB(p.b, p.e, m), p.w)

CastleSqMask == [s \in Sq |-> IF s = 0 THEN 14 ELSE IF s = 4 THEN 12 ELSE IF s = 7 THEN 13
                          ELSE IF s = 56 THEN 11 ELSE IF s = 60 THEN 3 ELSE IF s = 63 THEN 7 ELSE 15]
RECURSIVE BitAnd(_,_)
BitAnd(a,c) == IF a = 0 \/ c = 0 THEN 0 ELSE (a % 2) * (c % 2) + 2 * BitAnd(a \div 2, c \div 2)

IsCapture(p, m) == p.b[m.to] # EMPTY \/ IsEpCapture(p.b, p.e, m)
IsZeroing(p, m) == Kind(p.b[m.from]) = 6 \/ p.b[m.to] # EMPTY

(* The implementation's en-passant rule (ImplEp): after a double pawn push the ep   *)
(* square is set iff an enemy pawn stands beside the pushed pawn, whether or not    *)
(* the capture is legal.  FideEp below is the rule of the Laws of Chess.            *)
ImplEpAfter(p, m, b2) ==
   LET pc == p.b[m.from]
       dbl == Kind(pc) = 6 /\ (m.to - m.from = 16 \/ m.from - m.to = 16)
       epc == (m.from + m.to) \div 2
   IN IF dbl /\ \E t \in PawnAttFrom[~p.w][epc] : b2[t] = Mk(6, ~p.w) THEN epc ELSE NoSq

\* the position after playing m (texel's makeMove)
Play(p, m) ==
   LET b2 == AfterB(p.b, p.e, m)
   IN [b |-> b2,
       w |-> ~p.w,
       c |-> BitAnd(BitAnd(p.c, CastleSqMask[m.from]), CastleSqMask[m.to]),
       e |-> ImplEpAfter(p, m, b2),
       h |-> IF IsZeroing(p, m) THEN 0 ELSE p.h + 1,
       f |-> IF p.w THEN p.f ELSE p.f + 1]

\* ep right in the FIDE sense: an en-passant capture is actually legal
EpCaptures(p) == { m \in Legal(p) : IsEpCapture(p.b, p.e, m) }
FideEp(p) == IF p.e # NoSq /\ EpCaptures(p) # {} THEN p.e ELSE NoSq
Fixup(p) == [p EXCEPT !.e = FideEp(p)]       \* TextIO::fixupEPSquare

GivesCheck(p, m) == InCheck(Play(p, m))
IsMate(p) == InCheck(p) /\ Legal(p) = {}
IsStalemate(p) == ~InCheck(p) /\ Legal(p) = {}

(* move classes of the specialised generators *)
IsPromo(m) == m.promo # 0
QuietClassExcludedUnderPromo(m) == Kind(m.promo) \in {3, 4}   \* rook/bishop promotions are
            \* not generated by pseudoLegalCaptures / pseudoLegalCapturesAndChecks (named deviation)
CaptureClass(p) == { m \in Legal(p) : (IsCapture(p, m) \/ IsPromo(m)) /\ ~QuietClassExcludedUnderPromo(m) }
CaptureCheckClass(p) == { m \in Legal(p) : (IsCapture(p, m) \/ IsPromo(m) \/ GivesCheck(p, m))
                                            /\ ~QuietClassExcludedUnderPromo(m) }

(* ------------------------- position validity ---------------------------- *)
Count(b, pc) == Cardinality({s \in Sq : b[s] = pc})
CountSide(b, w) == Cardinality({s \in Sq : Own(b[s], w)})
\* what TextIO::readFEN accepts (after its silent repairs of castle flags / ep square)
FenAccepts(b, w) ==
   /\ Count(b, WK) = 1 /\ Count(b, BK) = 1
   /\ \A s \in Sq : Kind(b[s]) = 6 => Y(s) \in 1..6
   /\ ~InCheckB(b, ~w)
CastleRepair(b, cm) ==
   LET ok(bit, k0, ksq, r0, rsq) == IF HasBit(cm, bit) /\ b[ksq] = k0 /\ b[rsq] = r0 THEN bit ELSE 0
   IN ok(1, WK, E1, WR, A1) + ok(2, WK, E1, WR, H1) + ok(4, BK, E8, BR, A8) + ok(8, BK, E8, BR, H8)
EpRepair(b, w, e) ==
   IF e = NoSq THEN NoSq
   ELSE IF w THEN (IF Y(e) = 5 /\ b[e] = EMPTY /\ b[e-8] = BP THEN e ELSE NoSq)
   ELSE (IF Y(e) = 2 /\ b[e] = EMPTY /\ b[e+8] = WP THEN e ELSE NoSq)
\* the position readFEN returns for raw fields (b,w,cm,e,h,f)
FenPosition(b, w, cm, e, h, f) ==
   Fixup([b |-> b, w |-> w, c |-> CastleRepair(b, cm), e |-> EpRepair(b, w, e), h |-> h, f |-> f])
\* domain of the properties: at most 16 men a side, promotion-consistent counts
PromoConsistent(b, w) ==
   LET extra(k, base) == IF Count(b, Mk(k, w)) > base THEN Count(b, Mk(k, w)) - base ELSE 0
   IN /\ CountSide(b, w) <= 16
      /\ Count(b, Mk(6, w)) + extra(2,1) + extra(3,2) + extra(4,2) + extra(5,2) <= 8
InDomain(p) == FenAccepts(p.b, p.w) /\ PromoConsistent(p.b, TRUE) /\ PromoConsistent(p.b, FALSE)

(* ------------------------------ symmetries ------------------------------ *)
FlipSq(s) == SqOf(X(s), 7 - Y(s))
MirrorSq(s) == SqOf(7 - X(s), Y(s))
FlipCastle(c) == (IF HasBit(c,1) THEN 4 ELSE 0) + (IF HasBit(c,2) THEN 8 ELSE 0)
               + (IF HasBit(c,4) THEN 1 ELSE 0) + (IF HasBit(c,8) THEN 2 ELSE 0)
FlipColour(p) == [b |-> TLCEval([s \in Sq |-> FlipPiece(p.b[FlipSq(s)])]), w |-> ~p.w, c |-> FlipCastle(p.c),
                  e |-> IF p.e = NoSq THEN NoSq ELSE FlipSq(p.e), h |-> p.h, f |-> p.f]
MirrorX(p) == [b |-> TLCEval([s \in Sq |-> p.b[MirrorSq(s)]]), w |-> p.w, c |-> 0,
               e |-> IF p.e = NoSq THEN NoSq ELSE MirrorSq(p.e), h |-> p.h, f |-> p.f]

(* -------------------------------- identity ------------------------------ *)
\* all fields the implementation's hash covers (board, side, castle, *implementation* ep)
ImplKey(p) == <<p.b, p.w, p.c, p.e>>
\* FIDE identity of a position (Article 9.2): ep right only if an ep capture is legal
FideKey(p) == <<p.b, p.w, p.c, FideEp(p)>>

(* -------------------------------- material ------------------------------ *)
InsufficientMaterialB(b) ==   \* texel's "dead material" notion is defined in ChessGame.tla
   \A s \in Sq : Kind(b[s]) \in {0, 1}

(* ------------------------------ game generator -------------------------- *)
InitBoard == [s \in Sq |->
   IF s \in 8..15 THEN WP ELSE IF s \in 48..55 THEN BP
   ELSE IF s \in {0,7} THEN WR ELSE IF s \in {1,6} THEN WN ELSE IF s \in {2,5} THEN WB ELSE IF s = 3 THEN WQ ELSE IF s = 4 THEN WK
   ELSE IF s \in {56,63} THEN BR ELSE IF s \in {57,62} THEN BN ELSE IF s \in {58,61} THEN BB ELSE IF s = 59 THEN BQ ELSE IF s = 60 THEN BK
   ELSE EMPTY]
InitPos == [b |-> InitBoard, w |-> TRUE, c |-> 15, e |-> NoSq, h |-> 0, f |-> 1]

\* JSON traces carry boards as 64-element sequences (index 1 = a1)
BoardOfSeq(a) == TLCEval([s \in Sq |-> a[s+1]])
MvOfSeq(t) == Mv(t[1], t[2], t[3])
PosOfRec(r) == [b |-> BoardOfSeq(r.board), w |-> r.wtm, c |-> r.castle, e |-> r.ep, h |-> r.hmc, f |-> r.full]
=============================================================================
