-------------------------------- MODULE Tr_TT --------------------------------
(***************************************************************************)
(* C08 trace validation on the real TranspositionTable:                    *)
(*  Units/Hit  every distinct record returned by concurrent probes must be *)
(*             one of the catalogue units stored for exactly that key      *)
(*  Idx        index function = TTIndex formula, and IndexSafe             *)
(*  Shift      mate scores stored at ply p and read at ply q move by q - p *)
(*  TbRegion   ordinary stores never touch a resident tablebase            *)
(***************************************************************************)
EXTENDS Integers, Sequences, FiniteSets, TLC, Json, IOUtils
CONSTANT DIAG
VARIABLES l, units
Tr == ndJsonDeserialize(IOEnv.TRACE)
Chk(name, cond, info) == IF cond THEN TRUE ELSE (DIAG /\ PrintT(<<"MISMATCH", name, l, info>>))
Ev(e) == l <= Len(Tr) /\ Tr[l].e = e /\ l' = l + 1
MATE0 == 32000
IsWin(s) == s > MATE0 \div 2
IsLose(s) == s < -(MATE0 \div 2)
RECURSIVE Pow2(_)
Pow2(n) == IF n = 0 THEN 1 ELSE 2 * Pow2(n - 1)

TMeta == Ev("Meta") /\ units' = {}
\* what insert() stores for a unit: a remaining depth below zero (quiescence-node stores of the search) is kept as depth 0; every
\* other field as given.  A hit must equal the stored form of a catalogue unit.
Stored(u) == [u EXCEPT !.depth = IF @ < 0 THEN 0 ELSE @]
TUnits == Ev("Units") /\ units' = { Stored(Tr[l].units[i]) : i \in 1..Len(Tr[l].units) }
THit == /\ Ev("Hit") /\ UNCHANGED units
        /\ Chk("HitIsAUnit", Tr[l].u \in units, Tr[l].u)
TIdx ==
   /\ Ev("Idx") /\ UNCHANGED units
   /\ LET r == Tr[l]
          expect == ((r.keyHi * r.top) \div 65536) * Pow2(r.shift) + r.lowMasked
      IN /\ Chk("IndexFormula", r.idx = expect /\ r.maskOk, <<r.idx, expect, r.usedSize>>)
         /\ Chk("TopBits", r.top = r.usedSize \div Pow2(r.shift) /\ r.top < 256 /\ (r.shift > 0 => r.top >= 128), <<r.top, r.shift, r.usedSize>>)
         /\ Chk("IndexSafe", r.idx >= 0 /\ r.idx + 3 < r.usedSize, <<r.idx, r.usedSize>>)
         /\ Chk("UsedWithinTable", r.usedSize <= r.tableSize /\ (r.tb => r.usedSize + (5 * 1024 * 1024) \div 16 <= r.tableSize), <<r.usedSize, r.tableSize, r.tb>>)
TShift ==
   /\ Ev("Shift") /\ UNCHANGED units
   /\ LET r == Tr[l]
          expect == IF IsWin(r.score) THEN r.score + r.p - r.q ELSE IF IsLose(r.score) THEN r.score - r.p + r.q ELSE r.score
      IN Chk("MateScoreShift", r.hit /\ r.got = expect, <<r.score, r.p, r.q, r.got, expect>>)
TTbRegion == /\ Ev("TbRegion") /\ UNCHANGED units
             /\ Chk("TablebaseUntouchedByStores", Tr[l].built /\ Tr[l].same /\ Tr[l].usedSize + Tr[l].tbEntries <= Tr[l].tableSize, Tr[l])
TInit == l = 1 /\ units = {}
\* answers of a resident tablebase for a sample of its positions before and after millions of ordinary stores and probes
TTbAnswers == /\ Ev("TbAnswers") /\ UNCHANGED units
              /\ Chk("ResidentTableAnswersUnchangedByHashTraffic", Tr[l].changed = 0 /\ Tr[l].answeredBefore > 0, <<Tr[l].sampled, Tr[l].answeredBefore, Tr[l].changed>>)
TNext == TMeta \/ TUnits \/ THit \/ TIdx \/ TShift \/ TTbRegion \/ TTbAnswers
Accepted == TLCGet("stats").diameter - 1 = Len(Tr) \/ (PrintT(<<"REJECTED_AT", TLCGet("stats").diameter>>) /\ FALSE)
=============================================================================
