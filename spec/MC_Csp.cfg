CONSTANTS Lo <- LoNeg
 Hi = 2
INIT Init
NEXT Next
INVARIANT Agree
CHECK_DEADLOCK FALSE
