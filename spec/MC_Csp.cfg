INIT Init
NEXT Next
INVARIANT Agree
CHECK_DEADLOCK FALSE
