CONSTANTS
  Helpers <- H2flat
  Par <- P2flat
  Script <- S_ponder
  MaxJobs = 2
SPECIFICATION Spec
INVARIANTS OptionsInEffectAtGo AtMostOneBest AckNonNeg Quiescent ResultFresh NoDeadlock
CHECK_DEADLOCK FALSE
