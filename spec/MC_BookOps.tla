------------------------------ MODULE MC_BookOps ------------------------------
(* Shapes and value alphabets for BookOps.tla (the shapes are realised by harness/h_bookexh.cpp).          *)
(* Value names: integer scores; IGN / INV = IGNORE_SCORE / INVALID_SCORE; prefix "c" = the stored dropout   *)
(* move is the move leading to the node's first child (a search result obsoleted by a child node).         *)
EXTENDS BookOps
\* shape "chain": root -e4-> N -e5-> C, N -c5-> C2
ChainNodes == <<"root", "N", "C", "C2">>
ChainValues == << {"IGN", "-4", "0", "c0"}, {"-1", "0", "2", "c-1"}, {"0", "2", "INV"}, {"0", "-1"} >>
ChainPend == {"N", "C", "C2"}
\* shape "diamond": root -Nf3-> A -Nf6-> A1 -Nc3-> T ; root -Nc3-> B -Nf6-> B1 -Nf3-> T   (T has two parents)
DiamondNodes == <<"root", "A", "B", "A1", "B1", "T">>
DiamondValues == << {"IGN", "-3", "0"}, {"-1", "1", "c0"}, {"0", "2"}, {"-2", "0", "INV"}, {"-1", "c1"}, {"0", "1", "3"} >>
DiamondPend == {"A1", "B1", "T"}
=============================================================================
