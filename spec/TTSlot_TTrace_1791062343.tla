---- MODULE TTSlot_TTrace_1791062343 ----
EXTENDS TTSlot, Sequences, TLCExt, TTSlot_TEConstants, Toolbox, Naturals, TLC

_expression ==
    LET TTSlot_TEExpression == INSTANCE TTSlot_TEExpression
    IN TTSlot_TEExpression!expression
----

_trace ==
    LET TTSlot_TETrace == INSTANCE TTSlot_TETrace
    IN TTSlot_TETrace!trace
----

_inv ==
    ~(
        TLCGet("level") = Len(_TETrace)
        /\
        hits = ({<<k1, d2>>})
        /\
        nstores = (2)
        /\
        ppc = ("idle")
        /\
        dw = ({d2})
        /\
        pd = ({d2})
        /\
        stored = ({<<k1, d1>>, <<k2, d2>>})
        /\
        probeKey = (k1)
        /\
        wunit = ((w1 :> <<k1, d1>> @@ w2 :> <<k2, d2>>))
        /\
        wpc = ((w1 :> "dataleft" @@ w2 :> "keyleft"))
        /\
        pk = ({k1})
        /\
        kw = ({k1})
    )
----

_init ==
    /\ hits = _TETrace[1].hits
    /\ ppc = _TETrace[1].ppc
    /\ nstores = _TETrace[1].nstores
    /\ wpc = _TETrace[1].wpc
    /\ wunit = _TETrace[1].wunit
    /\ stored = _TETrace[1].stored
    /\ pd = _TETrace[1].pd
    /\ pk = _TETrace[1].pk
    /\ dw = _TETrace[1].dw
    /\ probeKey = _TETrace[1].probeKey
    /\ kw = _TETrace[1].kw
----

_next ==
    /\ \E i,j \in DOMAIN _TETrace:
        /\ \/ /\ j = i + 1
              /\ i = TLCGet("level")
        /\ hits  = _TETrace[i].hits
        /\ hits' = _TETrace[j].hits
        /\ ppc  = _TETrace[i].ppc
        /\ ppc' = _TETrace[j].ppc
        /\ nstores  = _TETrace[i].nstores
        /\ nstores' = _TETrace[j].nstores
        /\ wpc  = _TETrace[i].wpc
        /\ wpc' = _TETrace[j].wpc
        /\ wunit  = _TETrace[i].wunit
        /\ wunit' = _TETrace[j].wunit
        /\ stored  = _TETrace[i].stored
        /\ stored' = _TETrace[j].stored
        /\ pd  = _TETrace[i].pd
        /\ pd' = _TETrace[j].pd
        /\ pk  = _TETrace[i].pk
        /\ pk' = _TETrace[j].pk
        /\ dw  = _TETrace[i].dw
        /\ dw' = _TETrace[j].dw
        /\ probeKey  = _TETrace[i].probeKey
        /\ probeKey' = _TETrace[j].probeKey
        /\ kw  = _TETrace[i].kw
        /\ kw' = _TETrace[j].kw

\* Uncomment the ASSUME below to write the states of the error trace
\* to the given file in Json format. Note that you can pass any tuple
\* to `JsonSerialize`. For example, a sub-sequence of _TETrace.
    \* ASSUME
    \*     LET J == INSTANCE Json
    \*         IN J!JsonSerialize("TTSlot_TTrace_1791062343.json", _TETrace)

=============================================================================

 Note that you can extract this module `TTSlot_TEExpression`
  to a dedicated file to reuse `expression` (the module in the 
  dedicated `TTSlot_TEExpression.tla` file takes precedence 
  over the module `TTSlot_TEExpression` below).

---- MODULE TTSlot_TEExpression ----
EXTENDS TTSlot, Sequences, TLCExt, TTSlot_TEConstants, Toolbox, Naturals, TLC

expression == 
    [
        \* To hide variables of the `TTSlot` spec from the error trace,
        \* remove the variables below.  The trace will be written in the order
        \* of the fields of this record.
        hits |-> hits
        ,ppc |-> ppc
        ,nstores |-> nstores
        ,wpc |-> wpc
        ,wunit |-> wunit
        ,stored |-> stored
        ,pd |-> pd
        ,pk |-> pk
        ,dw |-> dw
        ,probeKey |-> probeKey
        ,kw |-> kw
        
        \* Put additional constant-, state-, and action-level expressions here:
        \* ,_stateNumber |-> _TEPosition
        \* ,_hitsUnchanged |-> hits = hits'
        
        \* Format the `hits` variable as Json value.
        \* ,_hitsJson |->
        \*     LET J == INSTANCE Json
        \*     IN J!ToJson(hits)
        
        \* Lastly, you may build expressions over arbitrary sets of states by
        \* leveraging the _TETrace operator.  For example, this is how to
        \* count the number of times a spec variable changed up to the current
        \* state in the trace.
        \* ,_hitsModCount |->
        \*     LET F[s \in DOMAIN _TETrace] ==
        \*         IF s = 1 THEN 0
        \*         ELSE IF _TETrace[s].hits # _TETrace[s-1].hits
        \*             THEN 1 + F[s-1] ELSE F[s-1]
        \*     IN F[_TEPosition - 1]
    ]

=============================================================================



Parsing and semantic processing can take forever if the trace below is long.
 In this case, it is advised to uncomment the module below to deserialize the
 trace from a generated binary file.

\*
\*---- MODULE TTSlot_TETrace ----
\*EXTENDS TTSlot, IOUtils, TTSlot_TEConstants, TLC
\*
\*trace == IODeserialize("TTSlot_TTrace_1791062343.bin", TRUE)
\*
\*=============================================================================
\*

---- MODULE TTSlot_TETrace ----
EXTENDS TTSlot, TTSlot_TEConstants, TLC

trace == 
    <<
    ([hits |-> {},nstores |-> 0,ppc |-> "idle",dw |-> {},pd |-> {},stored |-> {},probeKey |-> k1,wunit |-> (w1 :> <<>> @@ w2 :> <<>>),wpc |-> (w1 :> "idle" @@ w2 :> "idle"),pk |-> {},kw |-> {}]),
    ([hits |-> {},nstores |-> 1,ppc |-> "idle",dw |-> {},pd |-> {},stored |-> {<<k1, d1>>},probeKey |-> k1,wunit |-> (w1 :> <<k1, d1>> @@ w2 :> <<>>),wpc |-> (w1 :> "both" @@ w2 :> "idle"),pk |-> {},kw |-> {}]),
    ([hits |-> {},nstores |-> 1,ppc |-> "idle",dw |-> {},pd |-> {},stored |-> {<<k1, d1>>},probeKey |-> k1,wunit |-> (w1 :> <<k1, d1>> @@ w2 :> <<>>),wpc |-> (w1 :> "dataleft" @@ w2 :> "idle"),pk |-> {},kw |-> {k1}]),
    ([hits |-> {},nstores |-> 2,ppc |-> "idle",dw |-> {},pd |-> {},stored |-> {<<k1, d1>>, <<k2, d2>>},probeKey |-> k1,wunit |-> (w1 :> <<k1, d1>> @@ w2 :> <<k2, d2>>),wpc |-> (w1 :> "dataleft" @@ w2 :> "both"),pk |-> {},kw |-> {k1}]),
    ([hits |-> {},nstores |-> 2,ppc |-> "idle",dw |-> {d2},pd |-> {},stored |-> {<<k1, d1>>, <<k2, d2>>},probeKey |-> k1,wunit |-> (w1 :> <<k1, d1>> @@ w2 :> <<k2, d2>>),wpc |-> (w1 :> "dataleft" @@ w2 :> "keyleft"),pk |-> {},kw |-> {k1}]),
    ([hits |-> {},nstores |-> 2,ppc |-> "both",dw |-> {d2},pd |-> {},stored |-> {<<k1, d1>>, <<k2, d2>>},probeKey |-> k1,wunit |-> (w1 :> <<k1, d1>> @@ w2 :> <<k2, d2>>),wpc |-> (w1 :> "dataleft" @@ w2 :> "keyleft"),pk |-> {},kw |-> {k1}]),
    ([hits |-> {},nstores |-> 2,ppc |-> "dataleft",dw |-> {d2},pd |-> {},stored |-> {<<k1, d1>>, <<k2, d2>>},probeKey |-> k1,wunit |-> (w1 :> <<k1, d1>> @@ w2 :> <<k2, d2>>),wpc |-> (w1 :> "dataleft" @@ w2 :> "keyleft"),pk |-> {k1},kw |-> {k1}]),
    ([hits |-> {},nstores |-> 2,ppc |-> "decide",dw |-> {d2},pd |-> {d2},stored |-> {<<k1, d1>>, <<k2, d2>>},probeKey |-> k1,wunit |-> (w1 :> <<k1, d1>> @@ w2 :> <<k2, d2>>),wpc |-> (w1 :> "dataleft" @@ w2 :> "keyleft"),pk |-> {k1},kw |-> {k1}]),
    ([hits |-> {<<k1, d2>>},nstores |-> 2,ppc |-> "idle",dw |-> {d2},pd |-> {d2},stored |-> {<<k1, d1>>, <<k2, d2>>},probeKey |-> k1,wunit |-> (w1 :> <<k1, d1>> @@ w2 :> <<k2, d2>>),wpc |-> (w1 :> "dataleft" @@ w2 :> "keyleft"),pk |-> {k1},kw |-> {k1}])
    >>
----


=============================================================================

---- MODULE TTSlot_TEConstants ----
EXTENDS TTSlot

CONSTANTS w1, w2, k1, k2, d1, d2

=============================================================================

---- CONFIG TTSlot_TTrace_1791062343 ----
CONSTANTS
    Writers = { w1 , w2 }
    Keys = { k1 , k2 }
    Datas = { d1 , d2 }
    XorEncoding = FALSE
    MaxStores = 3
    w2 = w2
    d1 = d1
    k1 = k1
    d2 = d2
    w1 = w1
    k2 = k2

INVARIANT
    _inv

CHECK_DEADLOCK
    \* CHECK_DEADLOCK off because of PROPERTY or INVARIANT above.
    FALSE

INIT
    _init

NEXT
    _next

CONSTANT
    _TETrace <- _trace

ALIAS
    _expression
=============================================================================
\* Generated on Sat Oct 03 21:19:04 UTC 2026