CONSTANTS
  Keys <- K3
  Moves <- M2
  MaxStores = 5
  SetKeyFirst <- DefectOn
SPECIFICATION Spec
INVARIANTS MoveBelongsToKey
CHECK_DEADLOCK FALSE
