-------------------------------- MODULE Tr_Book --------------------------------
EXTENDS Book, Json, IOUtils
CONSTANT DIAG
VARIABLE l
Tr == ndJsonDeserialize(IOEnv.TRACE)
Chk(name, cond, info) == IF cond THEN TRUE ELSE (DIAG /\ PrintT(<<"MISMATCH", name, l, info>>))
Ev(e) == l <= Len(Tr) /\ Tr[l].e = e /\ l' = l + 1
TMeta == Ev("Meta") \/ Ev("BookFile")
TProbe ==
   /\ Ev("BookProbe")
   /\ LET p == PosOfRec(Tr[l])
          res == { MvOfSeq(Tr[l].results[i]) : i \in 1..Len(Tr[l].results) }
      IN /\ Chk("BookMoveIsLegal", ProbeLegal(p, res), <<Tr[l].kind, res>>)
         /\ (Tr[l].kind = "valid") => Chk("WellFormedBookIsFaithful", ProbeFaithful(p, Tr[l].stored, res, Tr[l].none, Tr[l].k), <<Tr[l].stored, res, Tr[l].none>>)
         /\ (Tr[l].kind \in {"missing", "missing-absent", "valid-absent"}) => Chk("NoMoveWithoutEntry", res = {}, <<Tr[l].kind, res>>)
\* removing one castling right / flipping the side to move changes the key by that feature's published constant
TKeyDiff == /\ Ev("KeyDiff")
            /\ Chk("PolyglotKeyUsesPublishedConstant", Tr[l].diff = PolyglotConst[Tr[l].what], <<Tr[l].what, Tr[l].castle, Tr[l].diff>>)
TInit == l = 1
TNext == TMeta \/ TProbe \/ TKeyDiff
Accepted == TLCGet("stats").diameter - 1 = Len(Tr) \/ (PrintT(<<"REJECTED_AT", TLCGet("stats").diameter>>) /\ FALSE)
=============================================================================
