------------------------------- MODULE Tr_Mate -------------------------------
(***************************************************************************)
(* C04 trace validation.                                                   *)
(*  MRoot   root position                                                  *)
(*  MClaim  the engine printed "mate n" (n > 0, exact or lower bound) or a *)
(*          final "mate -n"; cert is what the untrusted solver produced:   *)
(*          proof / refutation / lost tree, checked here against Mate.tla; *)
(*          dtm is the certified tablebase value (99999 = not available)   *)
(*  MBest   best move delivered together with a winning mate score         *)
(*  M1      final result of a completed depth (mate-in-one clause)         *)
(***************************************************************************)
EXTENDS Mate, Json, IOUtils
CONSTANT DIAG
VARIABLES l, root
Tr == ndJsonDeserialize(IOEnv.TRACE)
Chk(name, cond, info) == IF cond THEN TRUE ELSE (DIAG /\ PrintT(<<"MISMATCH", name, l, info>>))
Note(name, info) == PrintT(<<"NOTE", name, l, info>>)
Ev(e) == l <= Len(Tr) /\ Tr[l].e = e /\ l' = l + 1
MATE0 == 32000
DtmMoves(v) == IF v > 0 THEN (MATE0 - v) \div 2 ELSE IF v < 0 THEN (MATE0 + v) \div 2 ELSE 0

TMeta == Ev("Meta") /\ UNCHANGED root
TMRoot == /\ Ev("MRoot")
          /\ LET r == Tr[l].start IN
             /\ Chk("RootIsAValidPosition", FenAccepts(BoardOfSeq(r.board), r.wtm), Tr[l].fen)     \* driver sanity
             /\ root' = FenPosition(BoardOfSeq(r.board), r.wtm, r.castle, r.ep, r.hmc, r.full)

TMClaim ==
   /\ Ev("MClaim") /\ UNCHANGED root
   /\ LET r == Tr[l]  n == r.n  c == r.cert IN
      /\ (r.dtm # 99999) =>
            Chk("AnnouncedMateIsReal:dtm",
                IF r.kind = "win" THEN r.dtm > 0 /\ DtmMoves(r.dtm) <= n ELSE r.dtm < 0 /\ DtmMoves(r.dtm) <= n,
                <<r.fen, r.line, "dtm", r.dtm>>)
      /\ IF c.result = "proof" THEN Chk("SolverCertificate", ProofOK(root, c.tree, n), <<r.fen, n>>)
         ELSE IF c.result = "lost" THEN Chk("SolverCertificate", LostOK(root, c.tree, n), <<r.fen, n>>)
         ELSE IF c.result = "refutation"
              THEN IF RefutedOK(root, c.tree, n)
                   THEN Chk("AnnouncedMateIsReal", FALSE, <<r.fen, r.line, "no mate within", n>>)
                   ELSE Chk("SolverCertificate", FALSE, <<r.fen, n>>)
         ELSE TRUE      \* undecided: counted by the driver

TMBest ==
   /\ Ev("MBest") /\ UNCHANGED root
   /\ LET r == Tr[l]  m == MvOfSeq(r.m)  n == r.n  c == r.cert IN
      /\ Chk("BestMoveLegal", IsLegalMove(root, m), r.line)
      /\ IsLegalMove(root, m) =>
           LET q == Play(root, m) IN
           IF n = 1 THEN Chk("BestMoveKeepsMate", IsMate(q), <<r.fen, r.line>>)
           ELSE IF IsMate(q) THEN TRUE
           ELSE IF r.dtm # 99999 THEN Chk("BestMoveKeepsMate:dtm", r.dtm < 0 /\ DtmMoves(r.dtm) <= n - 1, <<r.fen, r.line, r.dtm>>)
           ELSE IF c.result = "lost" THEN Chk("SolverCertificate", LostOK(q, c.tree, n - 1), <<r.fen, n>>)
           ELSE TRUE

TM1 ==
   /\ Ev("M1") /\ UNCHANGED root
   /\ LET r == Tr[l]  M == MateIn1Moves(root) IN
      (M # {}) => /\ Chk("MateInOneScore", r.kind = "mate" /\ r.val = 1, <<r.fen, r.go, r.line>>)
                  /\ Chk("MateInOnePlayed", MvOfSeq(r.best) \in M, <<r.fen, r.go, r.best>>)

TInit == l = 1 /\ root = InitPos
TNext == TMeta \/ TMRoot \/ TMClaim \/ TMBest \/ TM1
Accepted == TLCGet("stats").diameter - 1 = Len(Tr) \/ (PrintT(<<"REJECTED_AT", TLCGet("stats").diameter>>) /\ FALSE)
=============================================================================
