----------------------------- MODULE Tr_BookGraph -----------------------------
EXTENDS BookGraph, Json, IOUtils
CONSTANT DIAG
VARIABLES l, saved
Tr == ndJsonDeserialize(IOEnv.TRACE)
\* the book cost parameters of the recorded run (first line of every trace file), substituted for BookGraph's constants
TrDepthCost == Tr[1].cfg[1]
TrOwnCost == Tr[1].cfg[2]
TrOtherCost == Tr[1].cfg[3]
Chk(name, cond, info) == IF cond THEN TRUE ELSE (DIAG /\ PrintT(<<"MISMATCH", name, l, info>>))
Ev(e) == l <= Len(Tr) /\ Tr[l].e = e /\ l' = l + 1
\* parent references are kept in a set ordered by pointer value: compare them as sets
Canon(g) == [i \in 1..Len(g) |-> [g[i] EXCEPT !.pars = { g[i].pars[p] : p \in 1..Len(g[i].pars) }]]
TMeta == Ev("Meta") /\ saved' = <<>>
TGraph ==
   /\ Ev("Graph")
   /\ LET g == Tr[l].nodes  op == Tr[l].op IN
      /\ Chk("Links", LinksOK(g), op)
      /\ Chk("Depth", DepthOK(g), <<op, { i \in 1..Len(g) : ~(IF g[i].root THEN g[i].depth = 0 ELSE g[i].depth = 1 + MinOf({ g[g[i].pars[p][2]].depth : p \in ParIdx(g[i]) })) }>>)
      /\ Chk("NegaMax", NegaMaxOK(g), <<op, { <<i, g[i].nega, NegaMaxOf(g, g[i])>> : i \in { j \in 1..Len(g) : g[j].nega # NegaMaxOf(g, g[j]) } }>>)
      /\ Chk("ExpansionCost", ExpansionOK(g), <<op, { <<i, g[i].expW, ExpansionOf(g, g[i], TRUE), g[i].expB, ExpansionOf(g, g[i], FALSE)>> :
                                                     i \in { j \in 1..Len(g) : g[j].expW # ExpansionOf(g, g[j], TRUE) \/ g[j].expB # ExpansionOf(g, g[j], FALSE) } }>>)
      /\ Chk("PathError", PathErrOK(g), <<op, { <<i, g[i].errW, g[i].errB, PathErrOf(g, g[i])>> : i \in { j \in 1..Len(g) : <<g[j].errW, g[j].errB>> # PathErrOf(g, g[j]) } }>>)
      /\ (op = "reload") => Chk("SaveLoadReproducesGraph", Len(saved) = Len(g) /\ Canon(saved) = Canon(g), op)
      /\ saved' = IF op = "before-save" THEN g ELSE saved
TInit == l = 1 /\ saved = <<>>
TNext == TMeta \/ TGraph
Accepted == TLCGet("stats").diameter - 1 = Len(Tr) \/ (PrintT(<<"REJECTED_AT", TLCGet("stats").diameter>>) /\ FALSE)
=============================================================================
