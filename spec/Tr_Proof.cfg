CONSTANT DIAG = FALSE
INIT TInit
NEXT TNext
CHECK_DEADLOCK FALSE
POSTCONDITION Accepted
