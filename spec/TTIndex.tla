-------------------------------- MODULE TTIndex --------------------------------
(***************************************************************************)
(* C08 index lemma (TranspositionTable::getIndex / setUsedSize), for every *)
(* table size: with  top = used >> sh  (128 <= top < 256 when sh > 0),     *)
(* mask = (2^sh - 1) & ~3,  r = high 16 key bits, low = key & mask:        *)
(*      idx = ((r * top) >> 16) << sh  |  low                              *)
(* satisfies  0 <= idx  and  idx + 3 < used  for every used >= 512 that is *)
(* a multiple of 4.  Integers are unbounded; the shift is enumerated.      *)
(* Discharged by Apalache (SMT); TLC evaluates the same formula on the     *)
(* index records logged from the real table (Tr_TT.tla).                   *)
(***************************************************************************)
EXTENDS Integers
VARIABLES
  \* @type: Int;
  used,
  \* @type: Int;
  r,
  \* @type: Int;
  low,
  \* @type: Int;
  sh,
  \* @type: Int;
  top
\* @type: (Int) => Int;
Pow2(n) == IF n = 0 THEN 1 ELSE IF n = 1 THEN 2 ELSE IF n = 2 THEN 4 ELSE IF n = 3 THEN 8 ELSE IF n = 4 THEN 16
   ELSE IF n = 5 THEN 32 ELSE IF n = 6 THEN 64 ELSE IF n = 7 THEN 128 ELSE IF n = 8 THEN 256 ELSE IF n = 9 THEN 512
   ELSE IF n = 10 THEN 1024 ELSE IF n = 11 THEN 2048 ELSE IF n = 12 THEN 4096 ELSE IF n = 13 THEN 8192 ELSE IF n = 14 THEN 16384
   ELSE IF n = 15 THEN 32768 ELSE IF n = 16 THEN 65536 ELSE IF n = 17 THEN 131072 ELSE IF n = 18 THEN 262144 ELSE IF n = 19 THEN 524288
   ELSE IF n = 20 THEN 1048576 ELSE IF n = 21 THEN 2097152 ELSE IF n = 22 THEN 4194304 ELSE IF n = 23 THEN 8388608 ELSE IF n = 24 THEN 16777216
   ELSE IF n = 25 THEN 33554432 ELSE IF n = 26 THEN 67108864 ELSE IF n = 27 THEN 134217728 ELSE IF n = 28 THEN 268435456
   ELSE IF n = 29 THEN 536870912 ELSE IF n = 30 THEN 1073741824 ELSE IF n = 31 THEN 2147483648 ELSE IF n = 32 THEN 4294967296
   ELSE IF n = 33 THEN 8589934592 ELSE IF n = 34 THEN 17179869184 ELSE IF n = 35 THEN 34359738368 ELSE IF n = 36 THEN 68719476736
   ELSE IF n = 37 THEN 137438953472 ELSE IF n = 38 THEN 274877906944 ELSE IF n = 39 THEN 549755813888 ELSE 1099511627776
Init == /\ sh \in 0..40
        /\ top \in 0..255
        /\ (sh > 0 => top >= 128)
        /\ used \in Int /\ used >= 512 /\ used % 4 = 0
        /\ top = used \div Pow2(sh)
        /\ (sh = 0 => used < 256)          \* setUsedSize shifts until the top bits fit in 8 bits
        /\ r \in 0..65535
        /\ low \in Int /\ low >= 0 /\ low < Pow2(sh) /\ low % 4 = 0
Next == UNCHANGED <<used, r, low, sh, top>>
Idx0 == ((r * top) \div 65536) * Pow2(sh) + low
IndexSafe == Idx0 >= 0 /\ Idx0 + 3 < used
=============================================================================
