-------------------------------- MODULE Tr_Time --------------------------------
(***************************************************************************)
(* C06 trace validation under the virtual clock (time = searched nodes).   *)
(*   TGo       go parameters as sent: start (virtual ms when the command   *)
(*             was read), movetime or the mover's clock, BufferTime,       *)
(*             ponder flag, slack (one polling interval in virtual ms)     *)
(*   TLimits   soft/hard limit handed to the search (hook in startThread / *)
(*             ponderHit)                                                  *)
(*   TStop, TPonderHit, TBest   virtual times of those events              *)
(* Envelope: 1 <= soft <= hard <= Budget.  Deadline: as in TimeControl.tla *)
(***************************************************************************)
EXTENDS Integers, Sequences, TLC, Json, IOUtils
CONSTANT DIAG
VARIABLES l, g, lim, stopAt, hitAt, answered
Tr == ndJsonDeserialize(IOEnv.TRACE)
Chk(name, cond, info) == IF cond THEN TRUE ELSE (DIAG /\ PrintT(<<"MISMATCH", name, l, info>>))
Ev(e) == l <= Len(Tr) /\ Tr[l].e = e /\ l' = l + 1
Min(a, b) == IF a < b THEN a ELSE b
Max(a, b) == IF a > b THEN a ELSE b
Budget(r) == IF r.movetime > 0 THEN r.movetime ELSE Max(1, r.time - Min(r.buffer, (r.time * 9) \div 10))
NoGo == [start |-> 0, movetime |-> 0, time |-> 0, buffer |-> 0, ponder |-> FALSE, slack |-> 0, txt |-> ""]

TMeta == (Ev("Meta") \/ Ev("Reset")) /\ g' = NoGo /\ lim' = <<-1, -1>> /\ stopAt' = -1 /\ hitAt' = -1 /\ answered' = TRUE
TGo == /\ Ev("TGo") /\ g' = Tr[l] /\ lim' = <<-1, -1>> /\ stopAt' = -1 /\ hitAt' = -1 /\ answered' = FALSE
TLimits ==
   /\ Ev("TLimits")
   /\ LET a == Tr[l].min  b == Tr[l].max IN
      /\ IF g.ponder /\ ~Tr[l].afterHit
         THEN Chk("PonderSearchHasNoLimit", a = -1 /\ b = -1, <<a, b, g.txt>>)
         ELSE /\ Chk("Envelope", 1 <= a /\ a <= b /\ b <= Budget(g), <<"soft", a, "hard", b, "budget", Budget(g), g.txt>>)
              /\ (g.movetime > 0 /\ ~Tr[l].oneMove) => Chk("FixedMoveTimeUsed", a = g.movetime /\ b = g.movetime, <<a, b, g.txt>>)
      /\ lim' = <<a, b>>
   /\ UNCHANGED <<g, stopAt, hitAt, answered>>
TStop == Ev("TStop") /\ stopAt' = (IF answered THEN stopAt ELSE Tr[l].vt) /\ UNCHANGED <<g, lim, hitAt, answered>>
TPonderHit == Ev("TPonderHit") /\ hitAt' = (IF answered THEN hitAt ELSE Tr[l].vt) /\ UNCHANGED <<g, lim, stopAt, answered>>
TBest ==
   /\ Ev("TBest")
   /\ LET t == Tr[l].vt  hard == lim[2] IN
      IF stopAt # -1 THEN Chk("PromptAfterStop", t - stopAt <= g.slack, <<"stop", stopAt, "best", t, "slack", g.slack, g.txt>>)
      ELSE IF hitAt # -1 /\ hard >= 0
           THEN Chk("PromptAfterPonderHit", t <= (IF hitAt - g.start >= hard THEN hitAt ELSE g.start + hard) + g.slack,
                    <<"hit", hitAt, "start", g.start, "hard", hard, "best", t, g.txt>>)
      ELSE IF hard >= 0
           THEN Chk("Deadline", t - g.start <= hard + g.slack, <<"start", g.start, "hard", hard, "best", t, "slack", g.slack, g.txt>>)
      ELSE TRUE
   /\ answered' = TRUE /\ UNCHANGED <<g, lim, stopAt, hitAt>>
TInit == l = 1 /\ g = NoGo /\ lim = <<-1, -1>> /\ stopAt = -1 /\ hitAt = -1 /\ answered = TRUE
TNext == TMeta \/ TGo \/ TLimits \/ TStop \/ TPonderHit \/ TBest
Accepted == TLCGet("stats").diameter - 1 = Len(Tr) \/ (PrintT(<<"REJECTED_AT", TLCGet("stats").diameter>>) /\ FALSE)
=============================================================================
