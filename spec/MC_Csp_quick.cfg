CONSTANTS Lo = 0
 Hi = 2
INIT Init
NEXT Next
INVARIANT Agree
CHECK_DEADLOCK FALSE
