CONSTANTS
 N = 6
 KidsOf <- DiamondKids
 DepthOf <- DiamondDepth
 ScoresOf <- DiamondScores
 CoveredOf <- DiamondCovered
 PendNodes <- DiamondPend
 QueueSelf = TRUE
 OldBlackFromWhite = FALSE
 DepthCost = 1
 OwnCost = 2
 OtherCost = 1
SPECIFICATION Spec
INVARIANT AtFixedPoint
CHECK_DEADLOCK FALSE
