CONSTANTS K = 2
 Budget = 4
 Horizon = 12
SPECIFICATION Spec
INVARIANTS Deadline AfterStop AfterPonderHit WithinBudget
CHECK_DEADLOCK FALSE
