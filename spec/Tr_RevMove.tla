----------------------------- MODULE Tr_RevMove -----------------------------
EXTENDS RevMove, Json, IOUtils
CONSTANT DIAG
VARIABLE l
Tr == ndJsonDeserialize(IOEnv.TRACE)
Chk(name, cond, info) == IF cond THEN TRUE ELSE (DIAG /\ PrintT(<<"MISMATCH", name, l, info>>))
Ev(e) == l <= Len(Tr) /\ Tr[l].e = e /\ l' = l + 1
TMeta == Ev("Meta")

SeqSet(s) == { s[i] : i \in 1..Len(s) }

\* completeness: the un-move list of Q = Play(P,m) contains m with exactly P's restore information
TRevC ==
   /\ Ev("RevC")
   /\ LET P == PosOfRec(Tr[l].p)  m == MvOfSeq(Tr[l].m)  Q == PosOfRec(Tr[l].q) IN
      EpPlausible(P) =>     \* synthetic placements may claim an impossible ep square: outside the domain
      /\ Chk("Domain", Normalised(P), P.e)
      /\ Chk("ForwardMove", IsPredecessor(P, m, Q), Tr[l].m)
      /\ Chk("CompleteNoEp", ExpectedUnMove(P, m, FALSE) \in SeqSet(Tr[l].f), <<ExpectedUnMove(P, m, FALSE), Tr[l].f>>)
      /\ Chk("CompleteAllEp", ExpectedUnMove(P, m, TRUE) \in SeqSet(Tr[l].t), <<ExpectedUnMove(P, m, TRUE), Tr[l].t>>)

\* consistency: every listed un-move restores a position where the move is legal and leads back to Q
TRevQ ==
   /\ Ev("RevQ")
   /\ LET Q == PosOfRec(Tr[l].q) IN
      \A i \in 1..Len(Tr[l].ums) :
         LET u == Tr[l].ums[i]  P == PosOfRec(u)  m == Mv(u.um[1], u.um[2], u.um[3]) IN
         /\ Chk("RestoredFields", P.c = u.um[5] /\ P.e = u.um[6] /\ P.h = 0 /\ P.w = ~Q.w, u.um)
         /\ Chk("UnMoveLegal", IsLegalMove(P, m), u.um)
         /\ Chk("UnMoveLeadsBack", SamePlace(Fixup(Play(P, m)), Q), u.um)
         /\ Chk("CapturedPiece", IF IsEpCapture(P.b, P.e, m) THEN u.um[4] = EMPTY ELSE P.b[m.to] = u.um[4], u.um)

TInit == l = 1
TNext == TMeta \/ TRevC \/ TRevQ
Accepted == TLCGet("stats").diameter - 1 = Len(Tr) \/ (PrintT(<<"REJECTED_AT", TLCGet("stats").diameter>>) /\ FALSE)
=============================================================================
