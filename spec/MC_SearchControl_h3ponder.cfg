CONSTANTS
  Helpers <- H3
  Par <- P3
  Script <- S_ponder
  MaxJobs = 2
SPECIFICATION Spec
INVARIANTS OptionsInEffectAtGo AtMostOneBest AckNonNeg Quiescent ResultFresh NoDeadlock
CHECK_DEADLOCK FALSE
