CONSTANT DIAG = TRUE
INIT TInit
NEXT TNext
CHECK_DEADLOCK FALSE
POSTCONDITION Accepted
