CONSTANTS
  Helpers <- H1
  Par <- P1
  Script <- S_live
  MaxJobs = 2
SPECIFICATION FairSpec
INVARIANTS OptionsInEffectAtGo AtMostOneBest AckNonNeg Quiescent
PROPERTIES Termination EachGoAnswered
CHECK_DEADLOCK FALSE
