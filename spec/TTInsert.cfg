CONSTANTS
  Keys <- K3
  Moves <- M2
  MaxStores = 5
SPECIFICATION Spec
INVARIANTS MoveBelongsToKey DataIsLatest
CHECK_DEADLOCK FALSE
