------------------------------ MODULE Session ------------------------------
(***************************************************************************)
(* C14: engine-lifetime state that outlives a search, and the contract of  *)
(* "Clear Hash".  The abstract state records, per cache, whether it may    *)
(* still hold information from earlier searches:                           *)
(*   tt        main transposition table contents                           *)
(*   gen       hash generation counter (mod 16), 0 in a fresh engine       *)
(*   hist      history heuristic tables                                    *)
(*   tb        an on-demand tablebase is resident inside the hash table    *)
(*   evalc     evaluation cache contents (a function of position AND       *)
(*             contempt, so it is harmless only if keyed by both)          *)
(*   opts      option values that differ from their defaults               *)
(* The observable contract: a depth/node limited single-thread search in a *)
(* state with Fresh(s) gives the same result as in InitState with the same *)
(* options; equal states give equal results.                               *)
(***************************************************************************)
EXTENDS Integers, Sequences, FiniteSets, TLC

InitState == [tt |-> FALSE, gen |-> 0, hist |-> FALSE, tb |-> FALSE, evalc |-> FALSE, opts |-> <<>>]

\* a search dirties every cache; it advances the generation (non-analyse searches)
AfterSearch(s, makesTb) == [s EXCEPT !.tt = TRUE, !.gen = (s.gen + 1) % 16, !.hist = TRUE, !.evalc = TRUE, !.tb = s.tb \/ makesTb]
\* the contract of the "Clear Hash" button (also issued by ucinewgame): everything a later search can observe is reset
AfterClearHash(s) == [s EXCEPT !.tt = FALSE, !.gen = 0, !.hist = FALSE, !.tb = FALSE, !.evalc = FALSE]
SetOpt(s, name, value, isDefault) ==
   LET others == SelectSeq(s.opts, LAMBDA o : o[1] # name)
   IN [s EXCEPT !.opts = IF isDefault THEN others ELSE Append(others, <<name, value>>)]
\* changing the hash size reallocates (and clears) the table
AfterHashResize(s) == [s EXCEPT !.tt = FALSE, !.gen = 0, !.tb = FALSE]

Fresh(s) == ~s.tt /\ s.gen = 0 /\ ~s.hist /\ ~s.tb /\ ~s.evalc
SameOptions(s, t) == { s.opts[i] : i \in 1..Len(s.opts) } = { t.opts[i] : i \in 1..Len(t.opts) }
=============================================================================
