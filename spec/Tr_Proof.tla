-------------------------------- MODULE Tr_Proof --------------------------------
(***************************************************************************)
(* C16: positions reached by legal games (ground truth of reachability by  *)
(* construction, checked here against the rule book) must never be         *)
(* classified illegal by the proof-game tool; every proof game it prints   *)
(* must be a legal game from the initial position ending in the goal; its  *)
(* lower bound on the remaining distance never exceeds the game's own      *)
(* continuation.                                                           *)
(***************************************************************************)
EXTENDS Chess, Json, IOUtils
CONSTANT DIAG
VARIABLE l
Tr == ndJsonDeserialize(IOEnv.TRACE)
Chk(name, cond, info) == IF cond THEN TRUE ELSE (DIAG /\ PrintT(<<"MISMATCH", name, l, info>>))
Ev(e) == l <= Len(Tr) /\ Tr[l].e = e /\ l' = l + 1
\* <<ok, final position>> of playing ms from p, stopping at the first illegal move
RECURSIVE PlayLegal(_,_,_)
PlayLegal(p, ms, i) == IF i > Len(ms) THEN <<TRUE, p>>
                       ELSE IF ~IsLegalMove(p, MvOfSeq(ms[i])) THEN <<FALSE, p>>
                       ELSE PlayLegal(Play(p, MvOfSeq(ms[i])), ms, i + 1)
SameGoal(p, q) == p.b = q.b /\ p.w = q.w /\ p.c = q.c /\ FideEp(p) = FideEp(q)
TMeta == Ev("Meta")
TPG ==
   /\ Ev("PG")
   /\ LET r == Tr[l]  goal == PosOfRec(r.goal)
          g == PlayLegal(InitPos, r.game, 1)
      IN /\ Chk("GeneratingGameIsLegalAndReachesGoal", g[1] /\ SameGoal(g[2], goal), r.fen)           \* ground truth (driver sanity)
         /\ Chk("ReachablePositionNotDeclaredIllegal", r.verdict # "illegal", <<r.fen, r.raw>>)
         /\ (r.hasProof) =>
               LET pr == PlayLegal(InitPos, r.proof, 1) IN
               /\ Chk("ProofGameParses", r.proofParsed, <<r.fen, r.raw>>)
               /\ Chk("ProofGameIsLegal", pr[1], <<r.fen, r.raw>>)
               /\ Chk("ProofGameEndsInGoal", pr[1] => SameGoal(pr[2], goal), <<r.fen, r.raw>>)
TBound == /\ Ev("Bound")
          /\ Chk("LowerBoundNeverExceedsTrueDistance", Tr[l].bound <= Tr[l].remaining, <<Tr[l].bound, Tr[l].remaining, Tr[l].start, Tr[l].goal>>)
TInit == l = 1
TNext == TMeta \/ TPG \/ TBound
Accepted == TLCGet("stats").diameter - 1 = Len(Tr) \/ (PrintT(<<"REJECTED_AT", TLCGet("stats").diameter>>) /\ FALSE)
=============================================================================
