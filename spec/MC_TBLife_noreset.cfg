CONSTANTS Classes = {"KQK", "KRK"}
  DropAt = 4
  ResetOnAbort = FALSE
  ClearRestoresSize = TRUE
SPECIFICATION Spec
INVARIANTS TypeOK ResidentIntact PartialNeverProbed FreshAfterClear AgedOut
