----------------------------- MODULE ChessGame -----------------------------
(***************************************************************************)
(* C11: repetition, 50-move rule and the game-over / draw-claim state      *)
(* machine of the console game, over the rule book.  Positions are         *)
(* compared with FideKey (Article 9.2: same side to move, same pieces on   *)
(* the same squares, same castling and *real* en-passant possibilities).   *)
(***************************************************************************)
EXTENDS Chess

\* positions P0..Pn reached by playing ms from p0 (sequence of length Len(ms)+1)
RECURSIVE PositionsFrom(_,_,_)
PositionsFrom(p, ms, i) == IF i > Len(ms) THEN <<p>> ELSE <<p>> \o PositionsFrom(Play(p, ms[i]), ms, i + 1)

Occurrences(ps, k) == Cardinality({ i \in 1..Len(ps) : FideKey(ps[i]) = k })

\* playing m in the last position of ps produces a position that then occurs for the third time
ThirdOccurrenceAfter(ps, m) ==
   LET q == Play(ps[Len(ps)], m) IN Occurrences(ps, FideKey(q)) >= 2
\* ... completes 50 moves by each side without capture or pawn move
FiftyAfter(ps, m) == Play(ps[Len(ps)], m).h >= 100

(* ---- dead material (the cases the console game reports as DRAW_NO_MATE) ---- *)
DarkSq(s) == (X(s) + Y(s)) % 2 = 0
DeadMaterial(b) ==
   LET minors == { s \in Sq : Kind(b[s]) \in {4, 5} }
       bishops == { s \in Sq : Kind(b[s]) = 4 }
   IN /\ \A s \in Sq : Kind(b[s]) \notin {2, 3, 6}
      /\ \/ Cardinality(minors) <= 1
         \/ (minors = bishops /\ ((\A s \in bishops : DarkSq(s)) \/ (\A s \in bishops : ~DarkSq(s))))

(* ---- console game (Game::processString) ---- *)
ALIVE == 0  WHITE_MATE == 1  BLACK_MATE == 2  WHITE_STALEMATE == 3  BLACK_STALEMATE == 4
DRAW_REP == 5  DRAW_50 == 6  DRAW_NO_MATE == 7  DRAW_AGREE == 8  RESIGN_WHITE == 9  RESIGN_BLACK == 10

\* g = [ps : positions for the whole move list (Len = Len(ml)+1), ml : moves, cur : moves currently made,
\*      offers : draw-offer flag per move, pend : pending offer, dstate, rstate]
NewGame(p0) == [ps |-> <<p0>>, ml |-> <<>>, cur |-> 0, offers |-> <<>>, pend |-> FALSE, dstate |-> ALIVE, rstate |-> ALIVE]
CurPos(g) == g.ps[g.cur + 1]
Played(g) == SubSeq(g.ps, 1, g.cur + 1)

GameStateOf(g) ==
   LET p == CurPos(g) IN
   IF Legal(p) = {} THEN (IF InCheck(p) THEN (IF p.w THEN BLACK_MATE ELSE WHITE_MATE)
                          ELSE (IF p.w THEN WHITE_STALEMATE ELSE BLACK_STALEMATE))
   ELSE IF DeadMaterial(p.b) THEN DRAW_NO_MATE
   ELSE IF g.rstate # ALIVE THEN g.rstate
   ELSE g.dstate
\* Game::getHistory: the positions before the current one, back to (and including) the position before the last move made from a
\* position... precisely: walk back from the current position while the position at hand has a non-zero half-move clock
RECURSIVE HistLenFrom(_, _)
HistLenFrom(g, k) == IF k = 0 \/ g.ps[k + 1].h = 0 THEN 0 ELSE 1 + HistLenFrom(g, k - 1)     \* k = moves still to take back
HistLen(g) == HistLenFrom(g, g.cur)
HistFirstClock(g) == IF HistLen(g) = 0 THEN -1 ELSE g.ps[g.cur + 1 - HistLen(g)].h
HaveDrawOffer(g) == g.cur > 0 /\ g.offers[g.cur]

\* make move m in the current position (truncating any redo tail); the console game normalises ep (Fixup)
DoMove(g, m) ==
   [g EXCEPT !.ps = SubSeq(g.ps, 1, g.cur + 1) \o <<Fixup(Play(CurPos(g), m))>>,
             !.ml = SubSeq(g.ml, 1, g.cur) \o <<m>>,
             !.offers = SubSeq(g.offers, 1, g.cur) \o <<g.pend>>,
             !.pend = FALSE, !.cur = g.cur + 1]
\* a move string: accepted iff the game is alive and the move is legal
CmdMove(g, m) == IF GameStateOf(g) = ALIVE /\ m \in Legal(CurPos(g)) THEN <<DoMove(g, m), TRUE>> ELSE <<g, FALSE>>
CmdUndo(g) == IF g.cur > 0 THEN [g EXCEPT !.cur = g.cur - 1, !.pend = FALSE, !.dstate = ALIVE, !.rstate = ALIVE] ELSE g
CmdRedo(g) == IF g.cur < Len(g.ml) THEN [g EXCEPT !.cur = g.cur + 1, !.pend = FALSE] ELSE g
CmdResign(g) == IF GameStateOf(g) = ALIVE THEN [g EXCEPT !.rstate = IF CurPos(g).w THEN RESIGN_WHITE ELSE RESIGN_BLACK] ELSE g
CmdAccept(g) == IF GameStateOf(g) = ALIVE /\ HaveDrawOffer(g) THEN [g EXCEPT !.dstate = DRAW_AGREE] ELSE g
\* "draw rep [m]" / "draw 50 [m]": hasM says whether a (legal) move accompanies the claim
RepValid(g, hasM, m) ==
   IF hasM THEN Occurrences(Played(g), FideKey(Play(CurPos(g), m))) >= 2
   ELSE Occurrences(Played(g), FideKey(CurPos(g))) >= 3
FiftyValid(g, hasM, m) == IF hasM THEN Play(CurPos(g), m).h >= 100 ELSE CurPos(g).h >= 100
CmdClaim(g, rep, hasM, m) ==
   IF GameStateOf(g) # ALIVE THEN g
   ELSE IF (rep /\ RepValid(g, hasM, m)) \/ (~rep /\ FiftyValid(g, hasM, m))
        THEN [g EXCEPT !.dstate = IF rep THEN DRAW_REP ELSE DRAW_50]
        ELSE LET g1 == [g EXCEPT !.pend = TRUE] IN IF hasM THEN DoMove(g1, m) ELSE g1   \* an invalid claim is a draw offer
CmdOffer(g, m) == IF GameStateOf(g) # ALIVE THEN g ELSE DoMove([g EXCEPT !.pend = TRUE], m)
=============================================================================
