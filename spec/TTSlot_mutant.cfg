CONSTANTS Writers = {w1, w2}
 Keys = {k1, k2}
 Datas = {d1, d2}
 XorEncoding = FALSE
 MaxStores = 3
 RereadData = FALSE
SPECIFICATION Spec
INVARIANT HitIsAUnit
CHECK_DEADLOCK FALSE
