-------------------------------- MODULE Tr_TB --------------------------------
(***************************************************************************)
(* C12 trace validation: rows of generated tablebases (value + successor   *)
(* values from real probes) against the rule book and the Bellman          *)
(* equation; scope rows; abort scenarios (TbGen / TbAgain / rows probed    *)
(* after an aborted generation must all be "not found").                   *)
(***************************************************************************)
EXTENDS FewMen, Json, IOUtils
CONSTANT DIAG
VARIABLES l, genOk, clsBoard
Tr == ndJsonDeserialize(IOEnv.TRACE)
Chk(name, cond, info) == IF cond THEN TRUE ELSE (DIAG /\ PrintT(<<"MISMATCH", name, l, info>>))
Ev(e) == l <= Len(Tr) /\ Tr[l].e = e /\ l' = l + 1
Null(x) == x = 99999          \* "not found" sentinel written by the harness

TMeta == /\ Ev("Meta") /\ genOk' = TRUE /\ clsBoard' = Tr[l].men

TTbGen == /\ Ev("TbGen") /\ UNCHANGED clsBoard
          /\ genOk' = Tr[l].ok
          /\ Chk("AbortReported", Tr[l].fired => ~Tr[l].ok, <<Tr[l].phase, Tr[l].n>>)
          /\ Chk("ResidentTableIsolated", Tr[l].ok => Tr[l].usedSize * 16 + 5 * 1024 * 1024 <= Tr[l].tableSize * 16,
                 <<Tr[l].usedSize, Tr[l].tableSize>>)
TTbAgain == /\ Ev("TbAgain") /\ UNCHANGED <<genOk, clsBoard>>
            /\ Chk("NoTableAfterAbort", ~genOk => ~Tr[l].ok, <<"updateTB claims a table after an aborted generation">>)

SuccOK(sc, L) == /\ { Mv(sc[i][1], sc[i][2], sc[i][3]) : i \in 1..Len(sc) } = L
                 /\ Len(sc) = Cardinality(L)
InScope(p) == Pawnless(p.b) /\ p.c = 0 /\ \A pc \in 1..12 : Cardinality({s \in Sq : p.b[s] = pc}) <= clsBoard[pc]

TRow ==
   /\ Ev("Row") /\ UNCHANGED <<genOk, clsBoard>>
   /\ LET r == Tr[l]
          p == FewPos(r.pcs, r.wtm, r.castle)
          L == Legal(p)
          sc == r.succ
      IN /\ Chk("RowPositionLegal", FenAccepts(p.b, p.w), r.pcs)
         /\ Chk("SuccessorsAreLegalMoves", SuccOK(sc, L), r.pcs)
         /\ IF ~genOk
            THEN Chk("NoAnswerAfterAbortedGeneration", Null(r.v) /\ \A i \in 1..Len(sc) : Null(sc[i][4]), <<r.pcs, r.wtm, r.v>>)
            ELSE IF ~InScope(p)
            THEN Chk("OutOfScopeNotFound", Null(r.v), <<r.pcs, r.castle, r.v>>)
            ELSE /\ Chk("InScopeFound", ~Null(r.v) /\ \A i \in 1..Len(sc) : ~Null(sc[i][4]), <<r.pcs, r.wtm, r.v>>)
                 /\ (~Null(r.v) /\ \A i \in 1..Len(sc) : ~Null(sc[i][4])) =>
                       Chk("Bellman", Bellman(p, r.v, { sc[i][4] : i \in 1..Len(sc) }), <<r.pcs, r.wtm, r.v, sc>>)

(* C13: what the engine reports at a root covered by its on-demand table.  The row is the oracle
   (validated by the same Bellman check), hmc the root's half-move clock. *)
TTbSearch ==
   /\ Ev("TbSearch") /\ UNCHANGED <<genOk, clsBoard>>
   /\ LET r == Tr[l].row
          p == FewPos(r.pcs, r.wtm, 0)
          L == Legal(p)
          sc == r.succ
          v == r.v
          h == Tr[l].hmc
          n == DtmMoves(v)
          fits == IF v > 0 THEN h + 2 * n - 1 <= 100 ELSE h + 2 * n <= 100     \* the exact mate completes before the 50-move limit
          isMateScore == Tr[l].kind = "mate"
          k == Tr[l].val
          best == MvOfSeq(Tr[l].best)
          bestVals == { sc[i][4] : i \in { j \in 1..Len(sc) : Mv(sc[j][1], sc[j][2], sc[j][3]) = best } }
          \* Without pawns only a capture resets the clock.  The mating side can still win after a capture only if it then owns a
          \* queen or a rook: with four men that is the case iff it owns one now (it keeps it when the other man is captured); with
          \* three men, or with minor pieces only, every capture leaves it with at most a lone minor piece, so its mate must fit.
          matingWhite == (v > 0) = r.wtm
          ResetCanHelp == Len(r.pcs) = 4 /\ \E i \in 1..Len(r.pcs) : r.pcs[i][2] \in (IF matingWhite THEN {2, 3} ELSE {8, 9})
      IN /\ Chk("OracleRowConsistent", SuccOK(sc, L) /\ ~Null(v) /\ (\A i \in 1..Len(sc) : ~Null(sc[i][4]))
                                        /\ Bellman(p, v, { sc[i][4] : i \in 1..Len(sc) }), r.pcs)
         /\ Chk("ExactReport", Tr[l].bound = "", Tr[l].line)
         /\ IF v = 0
            THEN Chk("DrawIsNotMate", ~isMateScore, Tr[l].line)
            ELSE IF fits
            THEN Chk("ExactDistanceToMate", isMateScore /\ k = (IF v > 0 THEN n ELSE -n), <<"dtm", IF v > 0 THEN n ELSE -n, Tr[l].line>>)
            ELSE Chk("NoMateBeyondFiftyMoveLimit",
                     \* an announced mate is never shorter than the exact one, and none may be announced at all unless a capture
                     \* can reset the counter and leave the mating side with mating material (ResetCanHelp)
                     isMateScore => /\ (k > 0) = (v > 0)
                                    /\ (IF k > 0 THEN k >= n ELSE -k >= n)
                                    /\ ResetCanHelp,
                     <<"dtm", n, "hmc", h, Tr[l].line>>)
         /\ Chk("BestMoveLegal", best \in L, Tr[l].best)
         /\ (best \in L /\ v > 0 /\ fits) => Chk("BestMoveKeepsShortestMate", \A x \in bestVals : Back(x) = v, <<bestVals, v>>)
         /\ (best \in L /\ v = 0) =>
               \* a successor that is lost by DTM is only a real loss if the opponent's mate completes before the 50-move limit
               LET h2 == IF IsZeroing(p, best) THEN 0 ELSE h + 1 IN
               Chk("BestMoveKeepsDraw", \A x \in bestVals : Back(x) = 0 \/ (Back(x) < 0 /\ h2 + 2 * DtmMoves(x) - 1 > 100), <<bestVals, h>>)

TInit == l = 1 /\ genOk = TRUE /\ clsBoard = [pc \in 1..12 |-> 0]
TNext == TMeta \/ TTbGen \/ TTbAgain \/ TRow \/ TTbSearch
Accepted == TLCGet("stats").diameter - 1 = Len(Tr) \/ (PrintT(<<"REJECTED_AT", TLCGet("stats").diameter>>) /\ FALSE)
=============================================================================
