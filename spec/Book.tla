--------------------------------- MODULE Book ---------------------------------
(***************************************************************************)
(* C18: an opening book is a map from positions to a bag of                *)
(* <<move, weight>> entries.  Whatever the book source (built-in lines, a  *)
(* polyglot file, or a damaged file) a probe yields no move or a legal     *)
(* move.  For a well-formed book whose stored moves are all legal, only    *)
(* stored moves with positive weight are returned and, over enough         *)
(* repeated probes, every one of them is.                                  *)
(***************************************************************************)
EXTENDS Chess
StoredMoves(st) == { Mv(st[i][1], st[i][2], st[i][3]) : i \in 1..Len(st) }
PositiveMoves(st) == { Mv(st[i][1], st[i][2], st[i][3]) : i \in { j \in 1..Len(st) : st[j][4] > 0 } }
ProbeLegal(p, results) == \A m \in results : IsLegalMove(p, m)
\* well-formed book: every stored move is legal in the position
WellFormed(p, st) == \A m \in StoredMoves(st) : IsLegalMove(p, m)
ProbeFaithful(p, st, results, noneCount, k) ==
   WellFormed(p, st) =>
      /\ results \subseteq PositiveMoves(st)
      /\ (PositiveMoves(st) # {} => noneCount = 0)
      /\ (k >= 300 => PositiveMoves(st) \subseteq results)
      /\ (PositiveMoves(st) = {} => results = {})
(* ---- polyglot key structure ---- *)
(* The polyglot book format derives the position key by XOR-ing published 64-bit constants, one per feature.  The constants  *)
(* of the four castling rights and of the side to move (entries 768..771 and 780 of the format's Random64 table) are part   *)
(* of the format definition; a well-formed book found on disk was written with exactly these.                               *)
PolyglotConst == [H1 |-> "31d71dce64b2c310", A1 |-> "f165b587df898190", H8 |-> "a57e6339dd2cf3a0", A8 |-> "1ef6e6dbb1961ec9",
                  turn |-> "f8d626aaaf278509",
                  \* RandomEnPassant[file a..h] of the polyglot book format (Random64[772..779])
                  epA |-> "70cc73d90bc26e24", epB |-> "e21a6b35df0c3ad7", epC |-> "003a93d8b2806962", epD |-> "1c99ded33cb890a1",
                  epE |-> "cf3145de0add4289", epF |-> "d0e4427a5514fb72", epG |-> "77c621cc9fb3a483", epH |-> "67a34dac4356550b"]
=========================================================================
