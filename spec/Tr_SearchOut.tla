---------------------------- MODULE Tr_SearchOut ----------------------------
(***************************************************************************)
(* C03 (and the output-shape part of C04/C13): every line a search prints  *)
(* is judged against the rule book.                                        *)
(*   Root   start position fields + the move list given to "position"      *)
(*          (played with Play), searchmoves, MultiPV, number of root moves  *)
(*   Info   depth, multipv index, score kind/value/bound, pv               *)
(*   Best   best move, ponder move                                         *)
(***************************************************************************)
EXTENDS Chess, Json, IOUtils
CONSTANT DIAG
VARIABLES l, root, smoves, maxpv, lastIdx, firsts, nbest
Tr == ndJsonDeserialize(IOEnv.TRACE)
Chk(name, cond, info) == IF cond THEN TRUE ELSE (DIAG /\ PrintT(<<"MISMATCH", name, l, info>>))
Ev(e) == l <= Len(Tr) /\ Tr[l].e = e /\ l' = l + 1

MATE0 == 32000
RECURSIVE PlayAll(_,_,_)
PlayAll(p, ms, i) == IF i > Len(ms) THEN p ELSE PlayAll(Play(p, MvOfSeq(ms[i])), ms, i + 1)
\* index of the first move of pv that is not legal in the position reached (0 = whole pv playable)
RECURSIVE FirstBad(_,_,_)
FirstBad(p, pv, i) == IF i > Len(pv) THEN 0
                      ELSE IF ~IsLegalMove(p, MvOfSeq(pv[i])) THEN i
                      ELSE FirstBad(Play(p, MvOfSeq(pv[i])), pv, i + 1)
RECURSIVE HistLegal(_,_,_)
HistLegal(p, ms, i) == i > Len(ms) \/ (IsLegalMove(p, MvOfSeq(ms[i])) /\ HistLegal(Play(p, MvOfSeq(ms[i])), ms, i + 1))

TMeta == Ev("Meta") /\ UNCHANGED <<root, smoves, maxpv, lastIdx, firsts, nbest>>

TRoot ==
   /\ Ev("Root")
   /\ LET r == Tr[l].start
          p0 == FenPosition(BoardOfSeq(r.board), r.wtm, r.castle, r.ep, r.hmc, r.full)
      IN /\ Chk("HistoryLegal", HistLegal(p0, Tr[l].hist, 1), Tr[l].fen)     \* harness sanity, not the engine
         /\ root' = PlayAll(p0, Tr[l].hist, 1)
   /\ smoves' = { MvOfSeq(Tr[l].searchmoves[i]) : i \in 1..Len(Tr[l].searchmoves) }
   /\ maxpv' = Tr[l].multipv
   /\ lastIdx' = 0 /\ firsts' = {} /\ nbest' = 0

RootMoves == IF smoves = {} THEN Legal(root) ELSE Legal(root) \cap smoves

TInfo ==
   /\ Ev("Info")
   /\ UNCHANGED <<root, smoves, maxpv, nbest>>
   /\ LET r == Tr[l]  pv == r.pv  bad == FirstBad(root, pv, 1)
          newBatch == r.multipv = 0 \/ r.multipv <= lastIdx
          fs == IF newBatch THEN {} ELSE firsts
      IN /\ Chk("PvNonEmpty", Len(pv) >= 1, r.line)
         /\ Chk("PvPlayable", bad = 0, <<"first illegal pv index", bad, r.line>>)
         /\ Chk("PvStartsWithRootMove", Len(pv) >= 1 => MvOfSeq(pv[1]) \in RootMoves, r.line)
         /\ Chk("ScoreRange", IF r.kind = "cp" THEN r.val >= -(MATE0 \div 2) /\ r.val <= MATE0 \div 2
                              ELSE r.kind = "mate" /\ r.val # 0 /\ r.val >= -(MATE0 \div 4) /\ r.val <= MATE0 \div 4, r.line)
         /\ Chk("OneBound", r.bound \in {"", "lowerbound", "upperbound"}, r.line)
         /\ Chk("MultiPvIndex", r.multipv >= 0 /\ r.multipv <= maxpv /\ r.multipv <= Cardinality(RootMoves)
                                /\ (maxpv = 1 => r.multipv = 0), r.line)
         /\ Chk("MultiPvDistinct", Len(pv) >= 1 => pv[1] \notin fs, r.line)
         /\ lastIdx' = r.multipv
         /\ firsts' = IF Len(pv) >= 1 THEN fs \cup {pv[1]} ELSE fs

TBest ==
   /\ Ev("Best")
   /\ UNCHANGED <<root, smoves, maxpv, lastIdx, firsts>>
   /\ nbest' = nbest + 1
   /\ LET r == Tr[l]  m == MvOfSeq(r.m) IN
      /\ Chk("OneBestmove", nbest = 0, r.line)
      /\ IF Legal(root) = {}
         THEN Chk("NullMoveWhenNoLegalMove", r.null, r.line)
         ELSE /\ Chk("BestMoveLegal", ~r.null /\ m \in Legal(root), r.line)
              /\ Chk("BestMoveInSearchMoves", smoves = {} \/ m \in smoves, r.line)
              /\ (r.hasPonder /\ ~r.null /\ m \in Legal(root)) =>
                     Chk("PonderMoveLegal", IsLegalMove(Play(root, m), MvOfSeq(r.ponder)), r.line)

TInit == l = 1 /\ root = InitPos /\ smoves = {} /\ maxpv = 1 /\ lastIdx = 0 /\ firsts = {} /\ nbest = 0
TNext == TMeta \/ TRoot \/ TInfo \/ TBest
Accepted == TLCGet("stats").diameter - 1 = Len(Tr) \/ (PrintT(<<"REJECTED_AT", TLCGet("stats").diameter>>) /\ FALSE)
=============================================================================
