------------------------------ MODULE Tr_TBLife ------------------------------
(***************************************************************************)
(* Call histories on one real TranspositionTable object (h_tt life) against *)
(* the life-cycle model TBLife.tla.  Two layers, as for the controller:     *)
(*  - judged rules (property level, C08 / C12 / C13): what the table        *)
(*    answers is the truth or nothing; a resident table is out of reach of  *)
(*    hashing; an aborted generation leaves nothing that answers;           *)
(*    hash traffic changes no answer;                                       *)
(*    (that clear() and a new size restore full-size hashing is C14's       *)
(*    business and the model's invariant FreshAfterClear: here it is drift) *)
(*  - the design model is stepped alongside (one TBLife action per call,    *)
(*    chosen from the call's arguments and the MODEL's state); a difference *)
(*    between its projection and the logged one is printed as DRIFT and is  *)
(*    not a verdict (e.g. the age at which an unused table is dropped is a  *)
(*    design detail, not part of any property).                             *)
(***************************************************************************)
EXTENDS TBLife, Sequences, TLC, Json, IOUtils
CONSTANT DIAG
VARIABLES l, prev
Tr == ndJsonDeserialize(IOEnv.TRACE)
Chk(name, cond, info) == IF cond THEN TRUE ELSE (DIAG /\ PrintT(<<"MISMATCH", name, l, info>>))
Ev(e) == l <= Len(Tr) /\ Tr[l].e = e /\ l' = l + 1
NoPrev == [resident |-> FALSE, ansQ |-> 0, ansR |-> 0]

TMeta == Ev("Meta") /\ UNCHANGED <<vars, prev>>
TReset == /\ Ev("Reset") /\ prev' = NoPrev
          /\ res' = "none" /\ reduced' = FALSE /\ cnt' = 0 /\ region' = "hash" /\ streak' = 0 /\ last' = "init"
          /\ big' = Tr[l].big

Step(r) ==
   CASE r.op = "unsuit"  -> L(Unsuitable, "unsuitable")
     [] r.op = "clear"   -> L(Clear, "clear")
     [] r.op = "traffic" -> L(Traffic, "traffic")
     [] r.op = "resize"  -> IF r.big = big THEN UNCHANGED vars ELSE L(Resize(r.big), "resize")
     [] r.op = "suit"    -> IF res = r.c THEN L(Hit(r.c), "hit")
                            ELSE IF r.t = "short" \/ ~big THEN L(Declined(r.c), "declined")
                            ELSE IF r.t = "abort" THEN L(Aborted(r.c), "aborted")
                            ELSE L(Generate(r.c), "generate")

Ans(r, c) == IF c = "KQK" THEN r.ansQ ELSE r.ansR
Drift(r) == IF (res' # "none") = r.resident /\ reduced' = r.reduced /\ (res' = "KQK") = (r.ansQ > 0) /\ (res' = "KRK") = (r.ansR > 0)
            THEN TRUE ELSE PrintT(<<"DRIFT", l, r.op, <<res', reduced'>>, <<r.resident, r.reduced, r.ansQ, r.ansR>>>>)

TLife ==
   /\ Ev("Life")
   /\ LET r == Tr[l] IN
      /\ Step(r)
      /\ Drift(r)
      /\ Chk("NothingButTheTruth", r.wrongQ = 0 /\ r.wrongR = 0, r)
      /\ Chk("ResidentTableIsolated", r.resident => r.reduced /\ r.room, r)
      /\ Chk("AnswersOnlyFromAResidentTable", ~r.resident => r.ansQ = 0 /\ r.ansR = 0, r)
      /\ Chk("AtMostOneClassAnswers", r.ansQ = 0 \/ r.ansR = 0, r)
      /\ Chk("AbortedGenerationAnswersNothing", (r.op = "suit" /\ r.t = "abort" /\ r.started) => ~r.ret /\ ~r.resident /\ r.ansQ = 0 /\ r.ansR = 0, r)
      /\ Chk("AcceptedRootIsAnswered", (r.op = "suit" /\ r.ret) => r.resident /\ Ans(r, r.c) = r.sample, r)
      /\ Chk("TrafficChangesNoAnswer", r.op = "traffic" => r.resident = prev.resident /\ r.ansQ = prev.ansQ /\ r.ansR = prev.ansR, <<prev, r>>)
      /\ Chk("UnsuitableRootBuildsNothing", r.op = "unsuit" => (r.resident => prev.resident) /\ r.ansQ <= prev.ansQ /\ r.ansR <= prev.ansR, <<prev, r>>)
      /\ prev' = [resident |-> r.resident, ansQ |-> r.ansQ, ansR |-> r.ansR]

TInit == l = 1 /\ prev = NoPrev /\ res = "none" /\ reduced = FALSE /\ cnt = 0 /\ big = TRUE /\ region = "hash" /\ streak = 0 /\ last = "init"
TNext == TMeta \/ TReset \/ TLife
Accepted == TLCGet("stats").diameter - 1 = Len(Tr) \/ (PrintT(<<"REJECTED_AT", TLCGet("stats").diameter>>) /\ FALSE)
=============================================================================
