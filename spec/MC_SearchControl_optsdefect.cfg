CONSTANTS
  Helpers <- H1
  Par <- P1
  Script <- S_opts
  MaxJobs = 2
  BarrierOnTaken <- DefectOn
SPECIFICATION Spec
INVARIANTS OptionsInEffectAtGo
CHECK_DEADLOCK FALSE
