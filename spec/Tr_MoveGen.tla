----------------------------- MODULE Tr_MoveGen -----------------------------
(***************************************************************************)
(* C01 trace validation: every line recorded from the real move generator  *)
(* (harness/h_movegen.cpp) is judged by the rule book Chess.tla.           *)
(* Lines are self-contained (each Pos line carries the full position), so  *)
(* the only state is the line counter.                                     *)
(***************************************************************************)
EXTENDS Chess, Json, IOUtils
CONSTANT DIAG            \* TRUE: print every mismatch and keep going (replay/diagnosis)
VARIABLE l
Tr == ndJsonDeserialize(IOEnv.TRACE)

Chk(name, cond, info) == IF cond THEN TRUE ELSE (DIAG /\ PrintT(<<"MISMATCH", name, l, info>>))
Ev(e) == l <= Len(Tr) /\ Tr[l].e = e /\ l' = l + 1

MvSet(lst) == { MvOfSeq(lst[i]) : i \in 1..Len(lst) }
\* entries [from,to,promo,verdict]
VerdictsOK(lst, L) == \A i \in 1..Len(lst) : (lst[i][4] = 1) = (MvOfSeq(lst[i]) \in L)
BadVerdicts(lst, L) == { lst[i] : i \in { j \in 1..Len(lst) : (lst[j][4] = 1) # (MvOfSeq(lst[j]) \in L) } }

TMeta == Ev("Meta")

TSetPos ==
   /\ Ev("SetPos")
   /\ LET r == Tr[l].raw  b == BoardOfSeq(r.board)
          acc == FenAccepts(b, r.wtm)
      IN /\ Chk("FenAccept", Tr[l].accepted = acc, Tr[l].fen)
         /\ (Tr[l].accepted /\ acc) =>
               Chk("FenPosition", PosOfRec(Tr[l].pos) = FenPosition(b, r.wtm, r.castle, r.ep, r.hmc, r.full), Tr[l].fen)

TPos ==
   /\ Ev("Pos")
   /\ LET p == PosOfRec(Tr[l])
          L == Legal(p)
          G == { m \in L : GivesCheck(p, m) }
          lg == Tr[l].legal
          lgSet == MvSet(lg)
          CapC == { m \in L : (IsCapture(p, m) \/ IsPromo(m)) /\ ~QuietClassExcludedUnderPromo(m) }
          CapChkC == CapC \cup { m \in G : ~QuietClassExcludedUnderPromo(m) }
      IN InDomain(p) =>
         /\ Chk("LegalSet", lgSet = L, <<"missing", L \ lgSet, "extra", lgSet \ L>>)
         /\ Chk("NoDuplicates", Len(lg) = Cardinality(lgSet), lg)
         /\ Chk("InCheck", Tr[l].chk = InCheck(p), Tr[l].chk)
         /\ Chk("GivesCheck", \A i \in 1..Len(lg) : MvOfSeq(lg[i]) \in L => ((lg[i][4] = 1) = (MvOfSeq(lg[i]) \in G)),
                { lg[i] : i \in { j \in 1..Len(lg) : MvOfSeq(lg[j]) \in L /\ (lg[j][4] = 1) # (MvOfSeq(lg[j]) \in G) } })
         /\ Chk("IsLegal", VerdictsOK(Tr[l].pl, L), BadVerdicts(Tr[l].pl, L))
         /\ Chk("PseudoCoversLegal", L \subseteq MvSet(Tr[l].pl), L \ MvSet(Tr[l].pl))
         /\ (Tr[l].chk => Chk("Evasions", L \subseteq MvSet(Tr[l].evas), L \ MvSet(Tr[l].evas)))
         /\ Chk("EvasionVerdicts", VerdictsOK(Tr[l].evas, L), BadVerdicts(Tr[l].evas, L))
         /\ Chk("Captures", CapC \subseteq MvSet(Tr[l].caps), CapC \ MvSet(Tr[l].caps))
         /\ Chk("CaptureVerdicts", VerdictsOK(Tr[l].caps, L), BadVerdicts(Tr[l].caps, L))
         /\ Chk("CapturesAndChecks", CapChkC \subseteq MvSet(Tr[l].capchk), CapChkC \ MvSet(Tr[l].capchk))
         /\ Chk("CapChkVerdicts", VerdictsOK(Tr[l].capchk, L), BadVerdicts(Tr[l].capchk, L))

TInit == l = 1
TNext == TMeta \/ TSetPos \/ TPos
Accepted == TLCGet("stats").diameter - 1 = Len(Tr) \/ (PrintT(<<"REJECTED_AT", TLCGet("stats").diameter>>) /\ FALSE)
=============================================================================
