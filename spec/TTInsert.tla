------------------------------ MODULE TTInsert ------------------------------
(***************************************************************************)
(* How TranspositionTable::insert assembles the record it stores in the    *)
(* slot it has chosen (C08, "a record that was stored as one unit for      *)
(* exactly that key").  One detail is not a plain overwrite: a store that  *)
(* carries the EMPTY move (fail-low / stand-pat nodes of the search) keeps *)
(* the move already in the slot - but only if the slot belongs to the same *)
(* key.  So the move of a stored record is either empty or a move that was *)
(* once stored for exactly that key; score, depth, type and evaluation     *)
(* always come from the last store.                                        *)
(*   SetKeyFirst = TRUE is the shape of a seeded change (the key is        *)
(*   written into the entry before the "same key?" test): it must be       *)
(*   refuted (TTInsert_defect.cfg).                                        *)
(***************************************************************************)
EXTENDS Naturals, FiniteSets
CONSTANTS Keys, Moves, MaxStores
SetKeyFirst == FALSE
Empty == "empty"
NoKey == "nokey"
VARIABLES slot, stored, n
vars == <<slot, stored, n>>
Init == slot = [key |-> NoKey, mv |-> Empty, dat |-> 0] /\ stored = {} /\ n = 0
Insert(k, m) ==
   /\ n < MaxStores
   /\ LET sameKey == IF SetKeyFirst THEN TRUE ELSE slot.key = k
          newMv == IF ~sameKey \/ m # Empty THEN m ELSE slot.mv
      IN slot' = [key |-> k, mv |-> newMv, dat |-> n + 1]
   /\ stored' = IF m # Empty THEN stored \cup {<<k, m>>} ELSE stored
   /\ n' = n + 1
Next == \E k \in Keys, m \in Moves \cup {Empty} : Insert(k, m)
Spec == Init /\ [][Next]_vars
\* the record a probe for slot.key would return never carries a move of another key
MoveBelongsToKey == slot.mv = Empty \/ <<slot.key, slot.mv>> \in stored
DataIsLatest == slot.dat = n
=============================================================================
