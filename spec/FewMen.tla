------------------------------- MODULE FewMen -------------------------------
(***************************************************************************)
(* C12/C13: distance-to-mate tables for pawnless positions of few men.     *)
(* Values use texel's score encoding at ply 0:                             *)
(*   side to move mates in n moves  ->  MATE0 - 2n                         *)
(*   side to move is mated in n     -> -(MATE0 - 2n - 1)   (n = 0: mated)  *)
(*   draw                           ->  0                                  *)
(* Bellman(v, succ) is the local optimality equation; by MC_Retro (every   *)
(* labelling of a finite game graph that satisfies it everywhere is the    *)
(* exact value) local consistency on all rows implies exactness.           *)
(***************************************************************************)
EXTENDS Chess
MATE0 == 32000
\* value of a position for its mover, seen one ply earlier by the opponent
Back(x) == IF x > 0 THEN -(x - 1) ELSE IF x < 0 THEN -(x + 1) ELSE 0
MaxOf(ss) == CHOOSE x \in ss : \A y \in ss : y <= x
\* pcs = sequence of <<square, piece>>
BoardOfPcs(pcs) == TLCEval([s \in Sq |-> LET idx == {i \in 1..Len(pcs) : pcs[i][1] = s}
                                         IN IF idx = {} THEN 0 ELSE pcs[CHOOSE i \in idx : TRUE][2]])
FewPos(pcs, w, cm) == [b |-> BoardOfPcs(pcs), w |-> w, c |-> cm, e |-> NoSq, h |-> 0, f |-> 1]
\* leaf values
LeafValue(p) == IF InCheck(p) THEN -(MATE0 - 1) ELSE 0
\* the equation: succVals = set of successor values (from the successor's mover's point of view)
Bellman(p, v, succVals) == IF Legal(p) = {} THEN v = LeafValue(p) ELSE v = MaxOf({ Back(x) : x \in succVals })
\* distance to mate in moves encoded in a score (0 for draws)
DtmMoves(v) == IF v > 0 THEN (MATE0 - v) \div 2 ELSE IF v < 0 THEN (MATE0 + v) \div 2 ELSE 0
\* scope of an on-demand table: no pawns, no castling rights, material a sub-configuration of the class
Pawnless(b) == \A s \in Sq : Kind(b[s]) # 6
CountPieces(b) == [pc \in 1..12 |-> Cardinality({s \in Sq : b[s] = pc})]
SubMaterial(b, cls) == \A pc \in 1..12 : CountPieces(b)[pc] <= CountPieces(cls)[pc]
=============================================================================
