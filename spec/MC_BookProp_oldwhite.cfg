CONSTANTS
 N = 4
 KidsOf <- ChainKids
 DepthOf <- ChainDepth
 ScoresOf <- ChainScores
 CoveredOf <- ChainCovered
 PendNodes <- ChainPend
 QueueSelf = TRUE
 OldBlackFromWhite = TRUE
 DepthCost = 1
 OwnCost = 2
 OtherCost = 1
SPECIFICATION Spec
INVARIANT AtFixedPoint
CHECK_DEADLOCK FALSE
