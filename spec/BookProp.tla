------------------------------- MODULE BookProp -------------------------------
(***************************************************************************)
(* C19, design level: the score PROPAGATION ALGORITHM of the book builder  *)
(* (BookNode::updateScores, lib/texelutillib/bookbuild.cpp:38-85), modelled *)
(* step by step over a fixed small graph, and checked by TLC against the   *)
(* defining equations of BookGraph.tla after every operation:              *)
(*                                                                         *)
(*   updateNegaMax(node, updateThis, updateChildren, updateParents)        *)
(*      - returns at once for a node that need not be recomputed           *)
(*      - first descends into the children (only INVALID ones recompute)   *)
(*      - recomputes the node (computeNegaMax); "propagate" = some score   *)
(*        of the node changed                                              *)
(*      - on propagate: the node itself and its children are queued for    *)
(*        the path-error pass                                              *)
(*      - climbs to the parents if the node changed or is the start node   *)
(*   then updatePathErrors for every queued node in (depth, id) order,     *)
(*   descending into the children while something changes.                 *)
(*                                                                         *)
(* The two switches reproduce defects, so that TLC must REFUTE the         *)
(* invariant for them (MC_BookProp_*.cfg; vacuity controls run by c19):    *)
(*   QueueSelf = FALSE    the node itself is not queued for the path-error *)
(*                        pass (texel before the fix recorded in           *)
(*                        known_findings.json, C19 PathError)              *)
(*   OldBlackFromWhite    the change test compares the new black expansion *)
(*      = TRUE            cost with the old WHITE one (seeded defect       *)
(*                        seeded/C19-negamax-change-detection-...)         *)
(* Operations are those of BookOps.tla: Store(n, score, covered) and       *)
(* Toggle(n) of the pending mark, each followed by updateScores(n).        *)
(***************************************************************************)
EXTENDS BookGraph
CONSTANTS N,            \* number of nodes; node 1 is the root
          KidsOf,       \* [1..N -> Seq(<<move, child>>)]  (the shape; acyclic, children have larger ids than one of their parents)
          DepthOf,      \* [1..N -> Nat] shortest distance from the root
          ScoresOf,     \* [1..N -> SUBSET Int] scores a search may store (IGNORE / INVALID allowed)
          CoveredOf,    \* [1..N -> SUBSET Int] scores that may be stored with the move to the first child as dropout move
          PendNodes,    \* nodes whose pending mark is toggled
          QueueSelf, OldBlackFromWhite
VARIABLE g
Node == 1..N
\* <<move, parent>> pairs of node n, as a sequence in (parent id, child index) order
ParsOf(n) == LET ps == { x \in Node \X (1..8) : x[2] <= Len(KidsOf[x[1]]) /\ KidsOf[x[1]][x[2]][2] = n }
                 RECURSIVE Sq(_)
                 Sq(T) == IF T = {} THEN <<>> ELSE LET m == CHOOSE x \in T : \A y \in T : x[1] < y[1] \/ (x[1] = y[1] /\ x[2] <= y[2])
                                                 IN <<<<KidsOf[m[1]][m[2]][1], m[1]>>>> \o Sq(T \ {m})
             IN Sq(ps)
FreeMove == 1          \* a dropout move that never leads to a node of the graph (child moves are >= 10)
Fresh(n) == [depth |-> DepthOf[n], search |-> INVALID, best |-> 0, nega |-> INVALID, expW |-> INVALID, expB |-> INVALID,
             errW |-> IF n = 1 THEN 0 ELSE INVALID, errB |-> IF n = 1 THEN 0 ELSE INVALID,
             pend |-> FALSE, root |-> (n = 1), kids |-> KidsOf[n], pars |-> ParsOf(n)]

(* ---- computeNegaMax: recompute one node from its children; the equations ARE the code's computation ---- *)
Recomputed(gr, n) ==
   LET old == gr[n]
       n1 == [old EXCEPT !.nega = NegaMaxOf(gr, old)]
       g1 == [gr EXCEPT ![n] = n1]
   IN [n1 EXCEPT !.expW = ExpansionOf(g1, n1, TRUE), !.expB = ExpansionOf(g1, n1, FALSE)]
Changed(old, new) == \/ new.nega # old.nega \/ new.expW # old.expW
                     \/ new.expB # (IF OldBlackFromWhite THEN old.expW ELSE old.expB)

(* ---- updateNegaMax ---- st = [g, tu] ---- *)
RECURSIVE UpdNega(_,_,_,_,_,_), OverKids(_,_,_,_), OverPars(_,_,_,_)
UpdNega(st, n, uThis, uKids, uPars, start) ==
   IF ~uThis /\ st.g[n].nega # INVALID THEN st
   ELSE LET st1 == IF uKids THEN OverKids(st, n, 1, start) ELSE st
            old == st1.g[n]
            new == Recomputed(st1.g, n)
            prop == Changed(old, new)
            kidset == { KidsOf[n][k][2] : k \in 1..Len(KidsOf[n]) }
            st2 == [g |-> [st1.g EXCEPT ![n] = new],
                    tu |-> IF prop THEN st1.tu \cup kidset \cup (IF QueueSelf THEN {n} ELSE {}) ELSE st1.tu]
        IN IF uPars /\ (prop \/ n = start) THEN OverPars(st2, n, 1, start) ELSE st2
OverKids(st, n, k, start) ==
   IF k > Len(KidsOf[n]) THEN st ELSE OverKids(UpdNega(st, KidsOf[n][k][2], FALSE, TRUE, FALSE, start), n, k + 1, start)
OverPars(st, n, k, start) ==
   LET ps == ParsOf(n) IN
   IF k > Len(ps) THEN st ELSE OverPars(UpdNega(st, ps[k][2], TRUE, FALSE, TRUE, start), n, k + 1, start)

(* ---- updatePathErrors ---- *)
RECURSIVE UpdErr(_,_), ErrKids(_,_,_)
UpdErr(gr, n) ==
   IF DepthOf[n] = 0 THEN gr
   ELSE LET pe == PathErrOf(gr, gr[n])
            modified == pe # <<gr[n].errW, gr[n].errB>>
            g1 == [gr EXCEPT ![n] = [@ EXCEPT !.errW = pe[1], !.errB = pe[2]]]
        IN IF modified THEN ErrKids(g1, n, 1) ELSE g1
ErrKids(gr, n, k) == IF k > Len(KidsOf[n]) THEN gr ELSE ErrKids(UpdErr(gr, KidsOf[n][k][2]), n, k + 1)
RECURSIVE ErrPass(_,_)
ErrPass(gr, T) == IF T = {} THEN gr
                  ELSE LET m == CHOOSE x \in T : \A y \in T : DepthOf[x] < DepthOf[y] \/ (DepthOf[x] = DepthOf[y] /\ x <= y)
                       IN ErrPass(UpdErr(gr, m), T \ {m})

UpdateScores(gr, start) ==
   LET st == UpdNega([g |-> gr, tu |-> {start}], start, TRUE, TRUE, TRUE, start) IN ErrPass(st.g, st.tu)

(* ---- operations ---- *)
Init == g = [n \in Node |-> Fresh(n)]
Store(n, s, cov) == g' = UpdateScores([g EXCEPT ![n] = [@ EXCEPT !.search = s,
                                          !.best = IF s \in {IGNORE, INVALID} THEN 0 ELSE IF cov THEN KidsOf[n][1][1] ELSE FreeMove]], n)
Toggle(n) == g' = UpdateScores([g EXCEPT ![n] = [@ EXCEPT !.pend = ~@]], n)
Next == \/ \E n \in Node : \E s \in ScoresOf[n] : Store(n, s, FALSE)
        \/ \E n \in Node : \E s \in CoveredOf[n] : Store(n, s, TRUE)
        \/ \E n \in PendNodes : Toggle(n)
Spec == Init /\ [][Next]_g
\* the graph is at its defined fixed point after every operation
AtFixedPoint == FixedPoint(g)
=============================================================================
