CONSTANTS
  Helpers <- H1
  Par <- P1
  Script <- S_b2b
  MaxJobs = 2
SPECIFICATION Spec
INVARIANTS OptionsInEffectAtGo AtMostOneBest AckNonNeg Quiescent ResultFresh NoDeadlock
CHECK_DEADLOCK FALSE
