-------------------------------- MODULE TTSlot --------------------------------
(***************************************************************************)
(* C08 design model: one slot of the lock-free transposition table.        *)
(* An entry is two words, kw = key XOR data and dw = data, written by      *)
(* TTEntry::store and read by TTEntry::load with relaxed atomics: the two  *)
(* word accesses of one store / load are independent steps that other      *)
(* threads can observe in either order.  XOR is modelled as symmetric      *)
(* difference of atom sets (keys and data values are distinct atoms), so   *)
(* there are no accidental collisions.                                     *)
(* HitIsAUnit: whatever a probe accepts for key k (kw XOR dw = k) is a     *)
(* <<key, data>> pair that some writer stored as one unit.                 *)
(* XorEncoding = FALSE models the mutant that stores the key un-xored.     *)
(* RereadData = TRUE models a load that reads the data word a second time  *)
(* for the value it returns (decoding the key with the first read).        *)
(***************************************************************************)
EXTENDS Integers, FiniteSets, Sequences, TLC
CONSTANTS Writers, Keys, Datas, XorEncoding, MaxStores, RereadData
VARIABLES kw, dw, wpc, wunit, stored, ppc, pk, pd, pdv, probeKey, hits, nstores
vars == <<kw, dw, wpc, wunit, stored, ppc, pk, pd, pdv, probeKey, hits, nstores>>
SymDiff(a, b) == (a \ b) \cup (b \ a)
Enc(k, d) == IF XorEncoding THEN SymDiff({k}, {d}) ELSE {k}
Init == /\ kw = {} /\ dw = {}
        /\ wpc = [w \in Writers |-> "idle"] /\ wunit = [w \in Writers |-> <<>>]
        /\ stored = {} /\ ppc = "idle" /\ pk = {} /\ pd = {} /\ pdv = {} /\ probeKey \in Keys /\ hits = {} /\ nstores = 0
\* a writer picks a unit and writes its two words in either order
WBegin(w) == /\ wpc[w] = "idle" /\ nstores < MaxStores
             /\ \E k \in Keys, d \in Datas : wunit' = [wunit EXCEPT ![w] = <<k, d>>] /\ stored' = stored \cup {<<k, d>>}
             /\ wpc' = [wpc EXCEPT ![w] = "both"] /\ nstores' = nstores + 1
             /\ UNCHANGED <<kw, dw, ppc, pk, pd, pdv, probeKey, hits>>
WKey(w) == /\ wpc[w] \in {"both", "keyleft"} /\ kw' = Enc(wunit[w][1], wunit[w][2])
           /\ wpc' = [wpc EXCEPT ![w] = IF wpc[w] = "both" THEN "dataleft" ELSE "idle"]
           /\ UNCHANGED <<dw, wunit, stored, ppc, pk, pd, pdv, probeKey, hits, nstores>>
WData(w) == /\ wpc[w] \in {"both", "dataleft"} /\ dw' = {wunit[w][2]}
            /\ wpc' = [wpc EXCEPT ![w] = IF wpc[w] = "both" THEN "keyleft" ELSE "idle"]
            /\ UNCHANGED <<kw, wunit, stored, ppc, pk, pd, pdv, probeKey, hits, nstores>>
\* the prober reads the two words in either order, then decides
PBegin == /\ ppc = "idle" /\ ppc' = "both" /\ \E k \in Keys : probeKey' = k
          /\ UNCHANGED <<kw, dw, wpc, wunit, stored, pk, pd, pdv, hits, nstores>>
AfterBoth == IF RereadData THEN "reread" ELSE "decide"
PKey == /\ ppc \in {"both", "keyleft"} /\ pk' = kw /\ ppc' = (IF ppc = "both" THEN "dataleft" ELSE AfterBoth)
        /\ UNCHANGED <<kw, dw, wpc, wunit, stored, pd, pdv, probeKey, hits, nstores>>
PData == /\ ppc \in {"both", "dataleft"} /\ pd' = dw /\ pdv' = dw /\ ppc' = (IF ppc = "both" THEN "keyleft" ELSE AfterBoth)
         /\ UNCHANGED <<kw, dw, wpc, wunit, stored, pk, probeKey, hits, nstores>>
\* only with RereadData: the returned data comes from a second read of the data word, the key was decoded with the first
PReread == /\ ppc = "reread" /\ pd' = dw /\ ppc' = "decide"
           /\ UNCHANGED <<kw, dw, wpc, wunit, stored, pk, pdv, probeKey, hits, nstores>>
Decoded == IF XorEncoding THEN SymDiff(pk, pdv) ELSE pk
PDecide == /\ ppc = "decide" /\ ppc' = "idle"
           /\ hits' = IF Decoded = {probeKey} /\ Cardinality(pd) = 1 THEN hits \cup {<<probeKey, CHOOSE d \in pd : TRUE>>} ELSE hits
           /\ UNCHANGED <<kw, dw, wpc, wunit, stored, pk, pd, pdv, probeKey, nstores>>
Next == (\E w \in Writers : WBegin(w) \/ WKey(w) \/ WData(w)) \/ PBegin \/ PKey \/ PData \/ PReread \/ PDecide
Spec == Init /\ [][Next]_vars
HitIsAUnit == hits \subseteq stored
=============================================================================
